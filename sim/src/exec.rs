//! Executor: drives the REAL iref-core code. Nothing in here is a stub; the
//! traits only erase the URI/IRI family so that one burst loop serves all six
//! owned buffer types.

use std::cell::RefCell;
use std::panic::{catch_unwind, resume_unwind, AssertUnwindSafe};

use iref_core::{iri, uri, IriBuf, IriRefBuf, UriBuf, UriRefBuf};

use crate::trace::*;

// ---------------------------------------------------------------------------
// panic capture

thread_local! {
	static LAST_PANIC: RefCell<Option<String>> = const { RefCell::new(None) };
	static GUARD_DEPTH: std::cell::Cell<u32> = const { std::cell::Cell::new(0) };
}

/// Marker payload of an unwind injected by the simulator (never a library panic).
pub struct Injected;

pub fn install_quiet_panic_hook() {
	std::panic::set_hook(Box::new(|info| {
		let msg = if let Some(s) = info.payload().downcast_ref::<&str>() {
			s.to_string()
		} else if let Some(s) = info.payload().downcast_ref::<String>() {
			s.clone()
		} else {
			"<non-string panic payload>".to_string()
		};
		let loc = info
			.location()
			.map(|l| {
				// keep the path relative to the crate so that scratch copies give the same text
				let f = l.file();
				let f = f.rfind("crates/core/").map(|i| &f[i..]).unwrap_or(f);
				format!("{}:{}", f, l.line())
			})
			.unwrap_or_default();
		if GUARD_DEPTH.with(|d| d.get()) == 0 {
			// not inside a guarded library call: a bug of the harness itself
			eprintln!("irefsim: harness panic: {} @ {:?}", msg, info.location());
		}
		LAST_PANIC.with(|p| *p.borrow_mut() = Some(format!("{} @ {}", msg, loc)));
	}));
}

pub enum Caught<T> {
	Ok(T),
	Panic(String),
	Injected,
}

pub fn guarded<T>(f: impl FnOnce() -> T) -> Caught<T> {
	GUARD_DEPTH.with(|d| d.set(d.get() + 1));
	let r = catch_unwind(AssertUnwindSafe(f));
	GUARD_DEPTH.with(|d| d.set(d.get() - 1));
	match r {
		Ok(v) => Caught::Ok(v),
		Err(p) => {
			if p.is::<Injected>() {
				Caught::Injected
			} else {
				let m = LAST_PANIC.with(|p| p.borrow_mut().take()).unwrap_or_else(|| "panic".into());
				Caught::Panic(m)
			}
		}
	}
}

// ---------------------------------------------------------------------------
// caller-supplied iterator with injected faults (seam S2)

pub struct FaultIter<'s, T: ?Sized> {
	items: Vec<&'s T>,
	pos: usize,
	mode: IterMode,
	gave_none: bool,
}

impl<'s, T: ?Sized> FaultIter<'s, T> {
	pub fn new(items: Vec<&'s T>, mode: IterMode) -> Self {
		FaultIter {
			items,
			pos: 0,
			mode,
			gave_none: false,
		}
	}
}

impl<'s, T: ?Sized> Iterator for FaultIter<'s, T> {
	type Item = &'s T;
	fn next(&mut self) -> Option<&'s T> {
		match self.mode {
			IterMode::Unwind(k) if self.pos == k => resume_unwind(Box::new(Injected)),
			IterMode::Short(k) if self.pos == k && !self.gave_none => {
				// non-fused: one `None`, after which more items would follow
				self.gave_none = true;
				return None;
			}
			_ => {}
		}
		let r = self.items.get(self.pos).copied();
		self.pos += 1;
		r
	}
}

/// The items a `symbolic_append` call actually consumes under `mode`.
pub fn effective_items(items: &[String], mode: IterMode) -> &[String] {
	match mode {
		IterMode::Normal => items,
		IterMode::Unwind(k) | IterMode::Short(k) => &items[..k.min(items.len())],
	}
}

// ---------------------------------------------------------------------------
// family-erasing traits

pub trait PathH {
	fn apply(&mut self, op: &PathOp);
	fn view(&self) -> &[u8];
}

pub trait AuthH {
	fn apply(&mut self, op: &AuthOp);
	fn view(&self) -> &[u8];
	/// `Deref` view (must agree with `as_authority`)
	fn deref_view(&self) -> &[u8];
	/// consumes the handle with `into_authority()`: (address, len) of the result
	fn into_window(self) -> (usize, usize);
}

pub trait HasBytes {
	fn bytes(&self) -> &[u8];
}

pub trait PathOwner: HasBytes {
	type H<'a>: PathH
	where
		Self: 'a;
	fn open(&mut self) -> Self::H<'_>;
}

pub trait AuthOwner: HasBytes {
	type H<'a>: AuthH
	where
		Self: 'a;
	fn open_auth(&mut self) -> Option<Self::H<'_>>;
}

macro_rules! family {
	($fam:ident, $conv:expr) => {
		impl<'h> PathH for $fam::PathMut<'h> {
			fn apply(&mut self, op: &PathOp) {
				#[allow(clippy::redundant_closure_call)]
				match op {
					PathOp::Push(s) => self.push($fam::Segment::new($conv(s.as_str())).expect("valid segment")),
					PathOp::Pop => self.pop(),
					PathOp::Clear => self.clear(),
					PathOp::SymPush(s) => self.symbolic_push($fam::Segment::new($conv(s.as_str())).expect("valid segment")),
					PathOp::SymAppend(items, mode) => {
						let v: Vec<&$fam::Segment> = items
							.iter()
							.map(|s| $fam::Segment::new($conv(s.as_str())).expect("valid segment"))
							.collect();
						self.symbolic_append(FaultIter::new(v, *mode))
					}
					PathOp::Normalize => self.normalize(),
					PathOp::Read => {
						// every read accessor that trusts the window
						let p: &$fam::Path = &**self;
						let _ = p.is_empty();
						let _ = p.is_absolute();
						let _ = p.first().map(|s| s.as_bytes().len());
						let _ = p.last().map(|s| s.as_bytes().len());
						let _ = p.segments().count();
						let _ = p.segments().rev().count();
						let _ = p.normalized_segments().len();
						let _ = p.file_name().map(|s| s.as_bytes().len());
						let _ = p.directory().as_bytes().len();
						let _ = p.parent().map(|s| s.as_bytes().len());
					}
				}
			}
			fn view(&self) -> &[u8] {
				let p: &$fam::Path = &**self;
				p.as_bytes()
			}
		}

		impl<'h> AuthH for $fam::AuthorityMut<'h> {
			fn apply(&mut self, op: &AuthOp) {
				match op {
					AuthOp::SetUserinfo(v) => {
						self.set_userinfo(v.as_ref().map(|s| $fam::UserInfo::new($conv(s.as_str())).expect("valid user info")))
					}
					AuthOp::SetHost(s) => self.set_host($fam::Host::new($conv(s.as_str())).expect("valid host")),
					AuthOp::SetPort(v) => self.set_port(v.as_ref().map(|s| uri::Port::new(s.as_bytes()).expect("valid port"))),
					AuthOp::Read => {
						let a: &$fam::Authority = self.as_authority();
						let _ = a.user_info().map(|u| u.as_bytes().len());
						let _ = a.host().as_bytes().len();
						let _ = a.port().map(|p| p.as_bytes().len());
						let _ = a.parts();
					}
				}
			}
			fn view(&self) -> &[u8] {
				self.as_authority().as_bytes()
			}
			fn deref_view(&self) -> &[u8] {
				let a: &$fam::Authority = &**self;
				a.as_bytes()
			}
			fn into_window(self) -> (usize, usize) {
				let a = self.into_authority();
				(a.as_bytes().as_ptr() as usize, a.as_bytes().len())
			}
		}
	};
}

fn as_str(s: &str) -> &str {
	s
}
fn as_bytes(s: &str) -> &[u8] {
	s.as_bytes()
}

family!(iri, as_str);
family!(uri, as_bytes);

macro_rules! owner_impl {
	($ty:ty, $fam:ident) => {
		impl HasBytes for $ty {
			fn bytes(&self) -> &[u8] {
				self.as_bytes()
			}
		}
		impl PathOwner for $ty {
			type H<'a> = $fam::PathMut<'a>;
			fn open(&mut self) -> $fam::PathMut<'_> {
				self.path_mut()
			}
		}
		impl AuthOwner for $ty {
			type H<'a> = $fam::AuthorityMut<'a>;
			fn open_auth(&mut self) -> Option<$fam::AuthorityMut<'_>> {
				self.authority_mut()
			}
		}
	};
}

owner_impl!(UriBuf, uri);
owner_impl!(UriRefBuf, uri);
owner_impl!(IriBuf, iri);
owner_impl!(IriRefBuf, iri);

macro_rules! path_owner_impl {
	($ty:ty, $fam:ident) => {
		impl HasBytes for $ty {
			fn bytes(&self) -> &[u8] {
				self.as_bytes()
			}
		}
		impl PathOwner for $ty {
			type H<'a> = $fam::PathMut<'a>;
			fn open(&mut self) -> $fam::PathMut<'_> {
				self.as_path_mut()
			}
		}
	};
}

path_owner_impl!(uri::PathBuf, uri);
path_owner_impl!(iri::PathBuf, iri);

// ---------------------------------------------------------------------------
// bursts through one handle

#[derive(Clone, Debug, Default)]
pub struct BurstLog {
	/// handle view after operation i (one entry per completed operation)
	pub views: Vec<Vec<u8>>,
	/// whole-buffer text captured just before operation i, when the handle had
	/// been given up at that point (always `Some` for i = 0: the pre-burst text)
	pub between: Vec<Option<Vec<u8>>>,
	/// library panic: (operation index, phase, message)
	pub panic: Option<(usize, &'static str, String)>,
	/// operations whose caller-supplied iterator unwound (injected)
	pub unwound: Vec<usize>,
	/// (offset, len) of the last handle view inside the buffer
	pub end_window: Option<(usize, usize)>,
	/// (offset, len) of `into_authority()` on a fresh handle after the burst
	pub into_window: Option<(usize, usize)>,
	/// Deref view differed from as_authority view at this op
	pub deref_mismatch: Option<usize>,
	pub final_text: Vec<u8>,
	pub faults_reopen: usize,
	pub faults_leak: usize,
}

pub fn path_burst<O: PathOwner>(o: &mut O, ops: &[BOp<PathOp>], force_reopen: bool) -> BurstLog {
	let mut log = BurstLog::default();
	log.between.push(Some(o.bytes().to_vec()));
	// probe first: obtaining a handle must not panic (the handle itself cannot
	// be carried out of a catch_unwind together with the error path's borrow)
	if let Caught::Panic(m) = guarded(|| {
		let _ = o.open();
	}) {
		log.panic = Some((0, "open", m));
		log.final_text = o.bytes().to_vec();
		return log;
	}
	let mut h = o.open();
	let mut view_ptr: Option<(usize, usize)> = None;
	for (i, bop) in ops.iter().enumerate() {
		if i > 0 {
			let life = if force_reopen { Life::Reopen } else { bop.life };
			match life {
				Life::Keep => log.between.push(None),
				Life::Reopen | Life::Leak => {
					if life == Life::Leak {
						std::mem::forget(h);
						log.faults_leak += 1;
					} else {
						drop(h);
						log.faults_reopen += 1;
					}
					log.between.push(Some(o.bytes().to_vec()));
					if let Caught::Panic(m) = guarded(|| {
						let _ = o.open();
					}) {
						log.panic = Some((i, "open", m));
						log.final_text = o.bytes().to_vec();
						return log;
					}
					h = o.open();
				}
			}
		}
		match guarded(|| h.apply(&bop.op)) {
			Caught::Ok(()) => {}
			Caught::Injected => {
				// The caller's own iterator unwound through the handle. Nothing is demanded of
				// that handle any more: the caller gives it up and obtains a fresh one.
				log.unwound.push(i);
				drop(h);
				if let Caught::Panic(m) = guarded(|| {
					let _ = o.open();
				}) {
					log.panic = Some((i, "open", m));
					log.final_text = o.bytes().to_vec();
					return log;
				}
				h = o.open();
			}
			Caught::Panic(m) => {
				log.panic = Some((i, "call", m));
				break;
			}
		}
		match guarded(|| {
			let v = h.view();
			(v.to_vec(), v.as_ptr() as usize, v.len())
		}) {
			Caught::Ok((v, p, l)) => {
				log.views.push(v);
				view_ptr = Some((p, l));
			}
			Caught::Panic(m) => {
				log.panic = Some((i, "view", m));
				break;
			}
			Caught::Injected => unreachable!(),
		}
	}
	drop(h);
	let base = o.bytes().as_ptr() as usize;
	if log.panic.is_none() {
		log.end_window = view_ptr.map(|(p, l)| (p.wrapping_sub(base), l));
	}
	log.final_text = o.bytes().to_vec();
	log
}

/// Returns `None` when the owner has no authority (burst not applicable).
pub fn auth_burst<O: AuthOwner>(o: &mut O, ops: &[BOp<AuthOp>], force_reopen: bool) -> Option<BurstLog> {
	let mut log = BurstLog::default();
	log.between.push(Some(o.bytes().to_vec()));
	match guarded(|| o.open_auth().is_some()) {
		Caught::Ok(true) => {}
		Caught::Ok(false) => return None,
		Caught::Panic(m) => {
			log.panic = Some((0, "open", m));
			log.final_text = o.bytes().to_vec();
			return Some(log);
		}
		Caught::Injected => unreachable!(),
	}
	let mut h = o.open_auth()?;
	let mut view_ptr: Option<(usize, usize)> = None;
	for (i, bop) in ops.iter().enumerate() {
		if i > 0 {
			let life = if force_reopen { Life::Reopen } else { bop.life };
			match life {
				Life::Keep => log.between.push(None),
				Life::Reopen | Life::Leak => {
					if life == Life::Leak {
						std::mem::forget(h);
						log.faults_leak += 1;
					} else {
						drop(h);
						log.faults_reopen += 1;
					}
					log.between.push(Some(o.bytes().to_vec()));
					match guarded(|| o.open_auth().is_some()) {
						Caught::Ok(true) => {}
						Caught::Ok(false) => {
							log.panic = Some((i, "open", "authority_mut() returned None after an authority edit".into()));
							log.final_text = o.bytes().to_vec();
							return Some(log);
						}
						Caught::Panic(m) => {
							log.panic = Some((i, "open", m));
							log.final_text = o.bytes().to_vec();
							return Some(log);
						}
						Caught::Injected => unreachable!(),
					}
					h = match o.open_auth() {
						Some(h) => h,
						None => unreachable!(),
					};
				}
			}
		}
		match guarded(|| h.apply(&bop.op)) {
			Caught::Ok(()) => {}
			Caught::Injected => unreachable!(),
			Caught::Panic(m) => {
				log.panic = Some((i, "call", m));
				break;
			}
		}
		match guarded(|| {
			let v = h.view();
			let d = h.deref_view();
			(v.to_vec(), v.as_ptr() as usize, v.len(), d == v)
		}) {
			Caught::Ok((v, p, l, same)) => {
				log.views.push(v);
				view_ptr = Some((p, l));
				if !same && log.deref_mismatch.is_none() {
					log.deref_mismatch = Some(i);
				}
			}
			Caught::Panic(m) => {
				log.panic = Some((i, "view", m));
				break;
			}
			Caught::Injected => unreachable!(),
		}
	}
	// the edited handle itself is consumed by into_authority()
	let iw = match guarded(move || h.into_window()) {
		Caught::Ok(w) => Some(w),
		Caught::Panic(m) => {
			if log.panic.is_none() {
				log.panic = Some((ops.len() - 1, "into_authority", m));
			}
			None
		}
		Caught::Injected => unreachable!(),
	};
	let base = o.bytes().as_ptr() as usize;
	if log.panic.is_none() {
		log.end_window = view_ptr.map(|(p, l)| (p.wrapping_sub(base), l));
		log.into_window = iw.map(|(p, l)| (p.wrapping_sub(base), l));
	}
	log.final_text = o.bytes().to_vec();
	Some(log)
}

// ---------------------------------------------------------------------------
// owners

#[derive(Clone)]
pub enum Owner {
	Uri(UriBuf),
	UriRef(UriRefBuf),
	Iri(IriBuf),
	IriRef(IriRefBuf),
	UPath(uri::PathBuf),
	IPath(iri::PathBuf),
}

fn with_slack_string(text: &str, slack: usize) -> String {
	let mut s = String::with_capacity(text.len() + slack);
	s.push_str(text);
	s
}

fn with_slack_vec(text: &str, slack: usize) -> Vec<u8> {
	let mut s = Vec::with_capacity(text.len() + slack);
	s.extend_from_slice(text.as_bytes());
	s
}

/// Checked construction of `kind` from text, by the plain `new` route.
pub fn parse_kind(kind: Kind, text: &[u8]) -> Option<Owner> {
	match kind {
		Kind::UriBuf => UriBuf::new(text.to_vec()).ok().map(Owner::Uri),
		Kind::UriRefBuf => UriRefBuf::new(text.to_vec()).ok().map(Owner::UriRef),
		Kind::IriBuf => IriBuf::from_vec(text.to_vec()).ok().map(Owner::Iri),
		Kind::IriRefBuf => IriRefBuf::from_vec(text.to_vec()).ok().map(Owner::IriRef),
		Kind::UriPathBuf => uri::PathBuf::new(text.to_vec()).ok().map(Owner::UPath),
		Kind::IriPathBuf => String::from_utf8(text.to_vec()).ok().and_then(|s| iri::PathBuf::new(s).ok()).map(Owner::IPath),
	}
}

/// The C04 re-parse oracle: raw bytes are UTF-8 and the *borrowed* checked
/// constructor of the same type accepts them (no copy of the buffer is made).
pub fn well_formed(kind: Kind, text: &[u8]) -> Result<(), &'static str> {
	let s = match std::str::from_utf8(text) {
		Ok(s) => s,
		Err(_) => return Err("buffer is not UTF-8"),
	};
	let ok = match kind {
		Kind::UriBuf => iref_core::Uri::new(text).is_ok(),
		Kind::UriRefBuf => iref_core::UriRef::new(text).is_ok(),
		Kind::IriBuf => iref_core::Iri::new(s).is_ok(),
		Kind::IriRefBuf => iref_core::IriRef::new(s).is_ok(),
		Kind::UriPathBuf => uri::Path::new(text).is_ok(),
		Kind::IriPathBuf => iri::Path::new(s).is_ok(),
	};
	if ok {
		Ok(())
	} else {
		Err("buffer does not re-parse as its own type")
	}
}

/// Validity of an argument value for the given family (library validators).
pub fn valid_arg(iri: bool, what: Comp, s: &str) -> bool {
	match (what, iri) {
		(Comp::Scheme, _) => uri::Scheme::new(s.as_bytes()).is_ok(),
		(Comp::Authority, false) => uri::Authority::new(s.as_bytes()).is_ok(),
		(Comp::Authority, true) => iri::Authority::new(s).is_ok(),
		(Comp::Path, false) => uri::Path::new(s.as_bytes()).is_ok(),
		(Comp::Path, true) => iri::Path::new(s).is_ok(),
		(Comp::Query, false) => uri::Query::new(s.as_bytes()).is_ok(),
		(Comp::Query, true) => iri::Query::new(s).is_ok(),
		(Comp::Fragment, false) => uri::Fragment::new(s.as_bytes()).is_ok(),
		(Comp::Fragment, true) => iri::Fragment::new(s).is_ok(),
	}
}

pub fn valid_segment(iri: bool, s: &str) -> bool {
	if iri {
		iri::Segment::new(s).is_ok()
	} else {
		uri::Segment::new(s.as_bytes()).is_ok()
	}
}
pub fn valid_userinfo(iri: bool, s: &str) -> bool {
	if iri {
		iri::UserInfo::new(s).is_ok()
	} else {
		uri::UserInfo::new(s.as_bytes()).is_ok()
	}
}
pub fn valid_host(iri: bool, s: &str) -> bool {
	if iri {
		iri::Host::new(s).is_ok()
	} else {
		uri::Host::new(s.as_bytes()).is_ok()
	}
}
pub fn valid_port(s: &str) -> bool {
	uri::Port::new(s.as_bytes()).is_ok()
}
pub fn valid_base(iri: bool, s: &str) -> bool {
	if iri {
		iref_core::Iri::new(s).is_ok()
	} else {
		iref_core::Uri::new(s.as_bytes()).is_ok()
	}
}

pub fn valid_path_op(iri: bool, op: &PathOp) -> bool {
	match op {
		PathOp::Push(s) | PathOp::SymPush(s) => valid_segment(iri, s),
		PathOp::SymAppend(items, mode) => {
			items.iter().all(|s| valid_segment(iri, s))
				&& match mode {
					IterMode::Normal => true,
					IterMode::Unwind(k) | IterMode::Short(k) => *k <= items.len(),
				}
		}
		_ => true,
	}
}

pub fn valid_auth_op(iri: bool, op: &AuthOp) -> bool {
	match op {
		AuthOp::SetUserinfo(Some(s)) => valid_userinfo(iri, s),
		AuthOp::SetHost(s) => valid_host(iri, s),
		AuthOp::SetPort(Some(s)) => valid_port(s),
		_ => true,
	}
}

impl Owner {
	pub fn kind(&self) -> Kind {
		match self {
			Owner::Uri(_) => Kind::UriBuf,
			Owner::UriRef(_) => Kind::UriRefBuf,
			Owner::Iri(_) => Kind::IriBuf,
			Owner::IriRef(_) => Kind::IriRefBuf,
			Owner::UPath(_) => Kind::UriPathBuf,
			Owner::IPath(_) => Kind::IriPathBuf,
		}
	}

	pub fn bytes(&self) -> &[u8] {
		match self {
			Owner::Uri(b) => b.as_bytes(),
			Owner::UriRef(b) => b.as_bytes(),
			Owner::Iri(b) => b.as_bytes(),
			Owner::IriRef(b) => b.as_bytes(),
			Owner::UPath(b) => b.as_bytes(),
			Owner::IPath(b) => b.as_bytes(),
		}
	}

	/// Builds the initial state by the requested route. `None`: the route does
	/// not apply to this kind/text, or the text is rejected.
	pub fn build(init: &Init) -> Option<Owner> {
		let t = init.text.as_str();
		let sl = init.slack;
		use Kind::*;
		match init.route {
			Route::New | Route::FromVec => match init.kind {
				UriBuf => iref_core::UriBuf::new(with_slack_vec(t, sl)).ok().map(Owner::Uri),
				UriRefBuf => iref_core::UriRefBuf::new(with_slack_vec(t, sl)).ok().map(Owner::UriRef),
				IriBuf => {
					if init.route == Route::New {
						iref_core::IriBuf::new(with_slack_string(t, sl)).ok().map(Owner::Iri)
					} else {
						iref_core::IriBuf::from_vec(with_slack_vec(t, sl)).ok().map(Owner::Iri)
					}
				}
				IriRefBuf => {
					if init.route == Route::New {
						iref_core::IriRefBuf::new(with_slack_string(t, sl)).ok().map(Owner::IriRef)
					} else {
						iref_core::IriRefBuf::from_vec(with_slack_vec(t, sl)).ok().map(Owner::IriRef)
					}
				}
				UriPathBuf => uri::PathBuf::new(with_slack_vec(t, sl)).ok().map(Owner::UPath),
				IriPathBuf => iri::PathBuf::new(with_slack_string(t, sl)).ok().map(Owner::IPath),
			},
			Route::FromStr => match init.kind {
				UriBuf => t.parse::<iref_core::UriBuf>().ok().map(Owner::Uri),
				UriRefBuf => t.parse::<iref_core::UriRefBuf>().ok().map(Owner::UriRef),
				IriBuf => t.parse::<iref_core::IriBuf>().ok().map(Owner::Iri),
				IriRefBuf => t.parse::<iref_core::IriRefBuf>().ok().map(Owner::IriRef),
				UriPathBuf => t.parse::<uri::PathBuf>().ok().map(Owner::UPath),
				IriPathBuf => t.parse::<iri::PathBuf>().ok().map(Owner::IPath),
			},
			Route::TryFrom => match init.kind {
				UriBuf => iref_core::UriBuf::try_from(with_slack_string(t, sl)).ok().map(Owner::Uri),
				UriRefBuf => iref_core::UriRefBuf::try_from(with_slack_string(t, sl)).ok().map(Owner::UriRef),
				IriBuf => iref_core::IriBuf::try_from(with_slack_string(t, sl)).ok().map(Owner::Iri),
				IriRefBuf => iref_core::IriRefBuf::try_from(with_slack_string(t, sl)).ok().map(Owner::IriRef),
				UriPathBuf => uri::PathBuf::try_from(with_slack_string(t, sl)).ok().map(Owner::UPath),
				IriPathBuf => iri::PathBuf::try_from(with_slack_string(t, sl)).ok().map(Owner::IPath),
			},
			Route::Default => {
				if !t.is_empty() {
					return None;
				}
				match init.kind {
					UriRefBuf => Some(Owner::UriRef(Default::default())),
					IriRefBuf => Some(Owner::IriRef(Default::default())),
					UriPathBuf => Some(Owner::UPath(Default::default())),
					IriPathBuf => Some(Owner::IPath(Default::default())),
					_ => None,
				}
			}
			Route::FromScheme => {
				let sch = t.strip_suffix(':')?;
				let sb = uri::SchemeBuf::new(sch.as_bytes().to_vec()).ok()?;
				match init.kind {
					UriBuf => Some(Owner::Uri(iref_core::UriBuf::from_scheme(sb))),
					IriBuf => Some(Owner::Iri(iref_core::IriBuf::from_scheme(sb))),
					_ => None,
				}
			}
			Route::ToOwned => match init.kind {
				UriBuf => iref_core::Uri::new(t.as_bytes()).ok().map(|r| Owner::Uri(r.to_owned())),
				UriRefBuf => iref_core::UriRef::new(t.as_bytes()).ok().map(|r| Owner::UriRef(r.to_owned())),
				IriBuf => iref_core::Iri::new(t).ok().map(|r| Owner::Iri(r.to_owned())),
				IriRefBuf => iref_core::IriRef::new(t).ok().map(|r| Owner::IriRef(r.to_owned())),
				UriPathBuf => uri::Path::new(t.as_bytes()).ok().map(|r| Owner::UPath(r.to_owned())),
				IriPathBuf => iri::Path::new(t).ok().map(|r| Owner::IPath(r.to_owned())),
			},
			Route::ConvertedFrom(src) => {
				if src.is_path() || init.kind.is_path() || src == init.kind {
					return None;
				}
				let o = Owner::build(&Init {
					kind: src,
					route: Route::New,
					text: init.text.clone(),
					slack: sl,
				})?;
				match o.convert(init.kind) {
					Ok(o) if o.kind() == init.kind => Some(o),
					_ => None,
				}
			}
		}
	}

	/// Conversion between the four owned URI/IRI types. `Ok(self)` unchanged
	/// when the library refuses (its error hands the value back); `Err(())`
	/// when there is no such conversion.
	pub fn convert(self, to: Kind) -> Result<Owner, ()> {
		use Owner::*;
		Ok(match (self, to) {
			(Uri(b), Kind::UriRefBuf) => UriRef(b.into_uri_ref()),
			(Uri(b), Kind::IriBuf) => Iri(b.into_iri()),
			(Uri(b), Kind::IriRefBuf) => IriRef(b.into_iri_ref()),
			(UriRef(b), Kind::IriRefBuf) => IriRef(b.into_iri_ref()),
			(UriRef(b), Kind::UriBuf) => match b.try_into_uri() {
				Ok(u) => Uri(u),
				Err(e) => UriRef(e.0),
			},
			(UriRef(b), Kind::IriBuf) => match b.try_into_iri() {
				Ok(u) => Iri(u),
				Err(e) => UriRef(e.0),
			},
			(Iri(b), Kind::IriRefBuf) => IriRef(b.into_iri_ref()),
			(Iri(b), Kind::UriBuf) => match b.try_into_uri() {
				Ok(u) => Uri(u),
				Err(e) => Iri(e.0),
			},
			(Iri(b), Kind::UriRefBuf) => match b.try_into_uri_ref() {
				Ok(u) => UriRef(u),
				Err(e) => Iri(e.0),
			},
			(IriRef(b), Kind::IriBuf) => match b.try_into_iri() {
				Ok(u) => Iri(u),
				Err(e) => IriRef(e.0),
			},
			(IriRef(b), Kind::UriBuf) => match b.try_into_uri() {
				Ok(u) => Uri(u),
				Err(e) => IriRef(e.0),
			},
			(IriRef(b), Kind::UriRefBuf) => match b.try_into_uri_ref() {
				Ok(u) => UriRef(u),
				Err(e) => IriRef(e.0),
			},
			_ => return Err(()),
		})
	}

	/// Moves the owner out through its durable representation and re-parses it.
	pub fn roundtrip(self) -> Option<Owner> {
		let kind = self.kind();
		let bytes: Vec<u8> = match self {
			Owner::Uri(b) => b.into_bytes(),
			Owner::UriRef(b) => b.into_bytes(),
			Owner::Iri(b) => b.into_string().into_bytes(),
			Owner::IriRef(b) => b.into_string().into_bytes(),
			Owner::UPath(b) => b.into_bytes(),
			Owner::IPath(b) => b.into_string().into_bytes(),
		};
		parse_kind(kind, &bytes)
	}

	/// Whole-buffer setter. `false`: not applicable to this kind.
	pub fn set(&mut self, comp: Comp, val: Option<&str>) -> bool {
		macro_rules! setters {
			($b:expr, $fam:ident, $conv:expr, $is_ref:expr) => {{
				match comp {
					Comp::Scheme => unreachable!(),
					Comp::Authority => $b.set_authority(val.map(|v| $fam::Authority::new($conv(v)).expect("valid authority"))),
					Comp::Path => match val {
						Some(v) => $b.set_path($fam::Path::new($conv(v)).expect("valid path")),
						None => return false,
					},
					Comp::Query => $b.set_query(val.map(|v| $fam::Query::new($conv(v)).expect("valid query"))),
					Comp::Fragment => $b.set_fragment(val.map(|v| $fam::Fragment::new($conv(v)).expect("valid fragment"))),
				}
				true
			}};
		}
		if comp == Comp::Scheme {
			let sch = val.map(|v| uri::Scheme::new(v.as_bytes()).expect("valid scheme"));
			return match self {
				Owner::Uri(b) => match sch {
					Some(s) => {
						b.set_scheme(s);
						true
					}
					None => false,
				},
				Owner::Iri(b) => match sch {
					Some(s) => {
						b.set_scheme(s);
						true
					}
					None => false,
				},
				Owner::UriRef(b) => {
					b.set_scheme(sch);
					true
				}
				Owner::IriRef(b) => {
					b.set_scheme(sch);
					true
				}
				_ => false,
			};
		}
		match self {
			Owner::Uri(b) => setters!(b, uri, as_bytes, false),
			Owner::UriRef(b) => setters!(b, uri, as_bytes, true),
			Owner::Iri(b) => setters!(b, iri, as_str, false),
			Owner::IriRef(b) => setters!(b, iri, as_str, true),
			_ => false,
		}
	}

	/// In-place resolution (reference types only).
	pub fn resolve_in_place(&mut self, base: &str) -> bool {
		match self {
			Owner::UriRef(b) => {
				b.resolve(iref_core::Uri::new(base.as_bytes()).expect("valid base"));
				true
			}
			Owner::IriRef(b) => {
				b.resolve(iref_core::Iri::new(base).expect("valid base"));
				true
			}
			_ => false,
		}
	}

	pub fn into_resolved(self, base: &str) -> Result<Owner, Owner> {
		match self {
			Owner::UriRef(b) => Ok(Owner::Uri(b.into_resolved(iref_core::Uri::new(base.as_bytes()).expect("valid base")))),
			Owner::IriRef(b) => Ok(Owner::Iri(b.into_resolved(iref_core::Iri::new(base).expect("valid base")))),
			o => Err(o),
		}
	}

	pub fn path_burst(&mut self, ops: &[BOp<PathOp>], force_reopen: bool) -> BurstLog {
		match self {
			Owner::Uri(b) => path_burst(b, ops, force_reopen),
			Owner::UriRef(b) => path_burst(b, ops, force_reopen),
			Owner::Iri(b) => path_burst(b, ops, force_reopen),
			Owner::IriRef(b) => path_burst(b, ops, force_reopen),
			Owner::UPath(b) => path_burst(b, ops, force_reopen),
			Owner::IPath(b) => path_burst(b, ops, force_reopen),
		}
	}

	pub fn auth_burst(&mut self, ops: &[BOp<AuthOp>], force_reopen: bool) -> Option<BurstLog> {
		match self {
			Owner::Uri(b) => auth_burst(b, ops, force_reopen),
			Owner::UriRef(b) => auth_burst(b, ops, force_reopen),
			Owner::Iri(b) => auth_burst(b, ops, force_reopen),
			Owner::IriRef(b) => auth_burst(b, ops, force_reopen),
			_ => None,
		}
	}

	/// `PathBuf::{push, pop, ...}` called directly (stand-alone buffers only).
	pub fn direct(&mut self, op: &PathOp) -> bool {
		macro_rules! direct {
			($b:expr, $fam:ident, $conv:expr) => {{
				match op {
					PathOp::Push(s) => $b.push($fam::Segment::new($conv(s.as_str())).expect("valid segment")),
					PathOp::Pop => $b.pop(),
					PathOp::Clear => $b.clear(),
					PathOp::SymPush(s) => $b.symbolic_push($fam::Segment::new($conv(s.as_str())).expect("valid segment")),
					PathOp::SymAppend(items, mode) => {
						let v: Vec<&$fam::Segment> = items
							.iter()
							.map(|s| $fam::Segment::new($conv(s.as_str())).expect("valid segment"))
							.collect();
						$b.symbolic_append(FaultIter::new(v, *mode))
					}
					PathOp::Normalize => $b.normalize(),
					PathOp::Read => {
						let _ = $b.segments().count();
					}
				}
				true
			}};
		}
		match self {
			Owner::UPath(b) => direct!(b, uri, as_bytes),
			Owner::IPath(b) => direct!(b, iri, as_str),
			_ => false,
		}
	}
}
