//! Engine `bufsim`: seeded edit histories on the six owned buffer types, with
//! handle lifecycle events, checked step by step against the text-level model
//! (C10, C11), the well-formedness invariant (C04) and the twin-run restart
//! oracle.

use std::collections::BTreeMap;

use crate::exec::*;
use crate::gen::{Gen, PathCtx, Swarm};
use crate::model::*;
use crate::rng::Rng;
use crate::trace::*;

#[derive(Clone, Copy, PartialEq, Eq, Debug)]
pub enum Prop {
	C04,
	C10,
	C11,
}

impl Prop {
	pub fn id(self) -> &'static str {
		match self {
			Prop::C04 => "C04",
			Prop::C10 => "C10",
			Prop::C11 => "C11",
		}
	}
	pub fn engine_id(self) -> u64 {
		match self {
			Prop::C04 => 4,
			Prop::C10 => 10,
			Prop::C11 => 11,
		}
	}
}

#[derive(Clone, Default, Debug)]
pub struct Stats {
	pub c: BTreeMap<&'static str, u64>,
	pub ops: BTreeMap<String, u64>,
	/// distinct (pre-state class, op, arg class, lifecycle) tuples reached (hashed)
	pub tuples: std::collections::HashSet<u64>,
}

impl Stats {
	pub fn hit(&mut self, k: &'static str) {
		*self.c.entry(k).or_insert(0) += 1;
	}
	pub fn add(&mut self, k: &'static str, n: u64) {
		*self.c.entry(k).or_insert(0) += n;
	}
	pub fn op(&mut self, k: &str) {
		if let Some(v) = self.ops.get_mut(k) {
			*v += 1;
		} else {
			self.ops.insert(k.to_string(), 1);
		}
	}
	pub fn merge(&mut self, o: &Stats) {
		for (k, v) in &o.c {
			*self.c.entry(k).or_insert(0) += v;
		}
		for (k, v) in &o.ops {
			*self.ops.entry(k.clone()).or_insert(0) += v;
		}
		for t in &o.tuples {
			self.tuples.insert(*t);
		}
	}
	pub fn tuple(&mut self, pre: &str, op: &str, arg: &str, life: u8) {
		use std::hash::{Hash, Hasher};
		let mut h = std::collections::hash_map::DefaultHasher::new();
		(pre, op, arg, life).hash(&mut h);
		self.tuples.insert(h.finish());
	}
}

pub enum Outcome {
	Ok,
	/// the trace cannot be executed as written (bad argument, op not applicable)
	Invalid,
	/// a failure that the armed property does not cover ended the run
	Abandon,
	Violation(Box<Violation>),
}

pub struct Exec {
	pub prop: Prop,
	pub owner: Option<Owner>,
	pub step_idx: usize,
	/// the history changed the text through a handle in a burst of >= 2 operations
	pub nontrivial: bool,
	pub mutated: bool,
}

fn txt(b: &[u8]) -> Option<Txt> {
	Some(Txt(b.to_vec()))
}

// --------------------------------------------------------------------------
// signature classes

pub fn path_class(p: &[u8]) -> &'static str {
	if p.is_empty() {
		"empty-relative"
	} else if p == b"/" {
		"empty-absolute"
	} else if p == b"./" || p == b"/./" {
		"shield-only"
	} else if p.ends_with(b"/./") {
		"ends-dot-slash"
	} else if p.starts_with(b"//") {
		"starts-empty-segment"
	} else if p.ends_with(b"/..") || p == b".." {
		"ends-dotdot"
	} else if p.ends_with(b"/") {
		"ends-empty-segment"
	} else if p.starts_with(b"./") || p.starts_with(b"/./") {
		"shielded"
	} else {
		"other"
	}
}

pub fn seg_class(s: &str) -> &'static str {
	if s.is_empty() {
		"empty"
	} else if s == "." {
		"dot"
	} else if s == ".." {
		"dotdot"
	} else if s.contains(':') {
		let pre = s.split(':').next().unwrap_or("");
		let schemelike = pre.chars().next().map(|c| c.is_ascii_alphabetic()).unwrap_or(false)
			&& pre.chars().all(|c| c.is_ascii_alphanumeric() || matches!(c, '+' | '-' | '.'));
		if schemelike {
			"colon-schemelike"
		} else {
			"colon-other"
		}
	} else if !s.is_ascii() {
		"multibyte"
	} else {
		"plain"
	}
}

fn ctx_class(kind: Kind, text: &[u8]) -> String {
	if kind.is_path() {
		format!("standalone,{}", path_class(text))
	} else {
		let s = split5(text);
		format!(
			"{}{}{}{},{}",
			if s.scheme.is_some() { "S" } else { "-" },
			if s.authority.is_some() { "A" } else { "-" },
			if s.query.is_some() { "Q" } else { "-" },
			if s.fragment.is_some() { "F" } else { "-" },
			path_class(s.path(text))
		)
	}
}

fn path_op_arg_class(op: &PathOp) -> String {
	match op {
		PathOp::Push(s) | PathOp::SymPush(s) => seg_class(s).to_string(),
		PathOp::SymAppend(items, mode) => {
			let mut cs: Vec<&str> = effective_items(items, *mode).iter().map(|s| seg_class(s)).collect();
			cs.sort();
			cs.dedup();
			let m = match mode {
				IterMode::Normal => "",
				IterMode::Unwind(_) => "!unwind",
				IterMode::Short(_) => "!short",
			};
			format!("[{}]{}", cs.join(","), m)
		}
		_ => "none".to_string(),
	}
}

fn auth_class(a: &[u8]) -> String {
	let s = split3(a);
	let ui = match &s.userinfo {
		None => "ui-absent",
		Some(r) if r.is_empty() => "ui-empty",
		Some(r) if a[r.clone()].contains(&b':') => "ui-colon",
		Some(_) => "ui-present",
	};
	let h = &a[s.host.clone()];
	let hk = if h.is_empty() {
		"host-empty"
	} else if h[0] == b'[' {
		"host-ip-literal"
	} else if !h.is_ascii() {
		"host-multibyte"
	} else {
		"host-name"
	};
	let p = match &s.port {
		None => "port-absent",
		Some(r) if r.is_empty() => "port-empty",
		Some(_) => "port-present",
	};
	format!("{},{},{}", ui, hk, p)
}

fn len_class(old: Option<usize>, new: Option<usize>) -> &'static str {
	match (old, new) {
		(None, None) => "absent->absent",
		(None, Some(_)) => "added",
		(Some(_), None) => "removed",
		(Some(o), Some(n)) if n > o => "longer",
		(Some(o), Some(n)) if n < o => "shorter",
		_ => "same-length",
	}
}

fn auth_op_arg_class(a: &[u8], op: &AuthOp) -> String {
	let s = split3(a);
	match op {
		AuthOp::SetUserinfo(v) => len_class(s.userinfo.as_ref().map(|r| r.len()), v.as_ref().map(|x| x.len())).to_string(),
		AuthOp::SetHost(h) => {
			let k = if h.starts_with('[') { ",ip-literal" } else { "" };
			format!("{}{}", len_class(Some(s.host.len()), Some(h.len())), k)
		}
		AuthOp::SetPort(v) => len_class(s.port.as_ref().map(|r| r.len()), v.as_ref().map(|x| x.len())).to_string(),
		AuthOp::Read => "none".to_string(),
	}
}

// --------------------------------------------------------------------------
// model checks

pub struct Fail {
	pub oracle: &'static str,
	pub message: String,
	pub expected: Option<Vec<u8>>,
}

fn split_for(kind: Kind, t: &[u8]) -> Split5 {
	if kind.is_path() {
		Split5 {
			scheme: None,
			authority: None,
			path: 0..t.len(),
			query: None,
			fragment: None,
		}
	} else {
		split5(t)
	}
}

/// The set of segment lists the specification may be in, threaded through the
/// operations of one burst. A leading `.` read from text may be a shield or a
/// segment (both readings are kept); a shield the library inserted during the
/// burst is not a segment, so that e.g. push("") followed by pop() must give
/// back the original sequence.
#[derive(Clone, Debug)]
pub struct PathModel {
	pub cands: Vec<Segs>,
}

impl PathModel {
	pub fn from_text(path: &[u8]) -> PathModel {
		let (_, segs) = path_segs(path);
		let st = strip(&segs).to_vec();
		let mut cands = vec![segs];
		if cands[0] != st {
			cands.push(st);
		}
		PathModel { cands }
	}
}

fn render_shielded(abs: bool, segs: &Segs) -> Vec<u8> {
	let mut v = segs.clone();
	if !v.is_empty() && (v[0].contains(&b':') || (v[0].is_empty())) {
		v.insert(0, b".".to_vec());
	}
	render(abs, &v)
}

/// C10, oracle 3: list semantics modulo shield equivalence, frame on the
/// other four components.
pub fn check_path_step(kind: Kind, pre: &[u8], post: &[u8], op: &PathOp, unwound: bool, model: &mut PathModel, stats: &mut Stats) -> Result<(), Fail> {
	let a = split_for(kind, pre);
	let b = split_for(kind, post);
	for (name, x, y) in [
		("frame_scheme", a.scheme(pre), b.scheme(post)),
		("frame_authority", a.authority(pre), b.authority(post)),
		("frame_query", a.query(pre), b.query(post)),
		("frame_fragment", a.fragment(pre), b.fragment(post)),
	] {
		if x != y {
			return Err(Fail {
				oracle: name,
				message: format!(
					"{} changed from {:?} to {:?} by a path edit",
					&name[6..],
					x.map(String::from_utf8_lossy),
					y.map(String::from_utf8_lossy)
				),
				expected: None,
			});
		}
	}
	let pp = a.path(pre);
	let qp = b.path(post);
	let abs = pp.first() == Some(&b'/');
	let (abs2, segs2) = path_segs(qp);
	let follows_auth = a.authority.is_some();
	if follows_auth && !qp.is_empty() && !abs2 {
		return Err(Fail {
			oracle: "absoluteness",
			message: "non-empty path after an authority does not start with '/'".into(),
			expected: None,
		});
	}
	let mop = match op {
		PathOp::Read => {
			if pre != post {
				return Err(Fail {
					oracle: "read_changed_text",
					message: "reading through the handle changed the buffer".into(),
					expected: Some(pre.to_vec()),
				});
			}
			return Ok(());
		}
		PathOp::Normalize => {
			// what normalisation yields is C09; here frame only
			*model = PathModel::from_text(qp);
			return Ok(());
		}
		PathOp::Push(s) => MPathOp::Push(s.as_bytes()),
		PathOp::Pop => MPathOp::Pop,
		PathOp::Clear => MPathOp::Clear,
		PathOp::SymPush(s) => MPathOp::SymPush(s.as_bytes()),
		PathOp::SymAppend(items, mode) => MPathOp::SymAppend(effective_items(items, *mode).iter().map(|s| s.as_bytes()).collect()),
	};
	if unwound {
		*model = PathModel::from_text(qp);
		return Ok(());
	}
	if !follows_auth && abs2 != abs {
		return Err(Fail {
			oracle: "absoluteness",
			message: format!("path was {} and became {}", if abs { "absolute" } else { "relative" }, if abs2 { "absolute" } else { "relative" }),
			expected: None,
		});
	}
	// a path after an authority is absolute; the empty one is written "" or "/"
	let abs_eff = abs || follows_auth;
	let got = strip(&segs2).to_vec();
	let mut next: Vec<Segs> = Vec::new();
	let mut first_expected: Option<Segs> = None;
	let mut ambiguous = false;
	for c in &model.cands {
		let mut outs = match path_outcomes(abs_eff, c, &mop) {
			Some(o) => o,
			None => {
				// more open readings than the model tracks: no verdict on this operation
				stats.hit("model_gave_no_verdict");
				*model = PathModel::from_text(qp);
				return Ok(());
			}
		};
		let primary = outs.len().min(1);
		if follows_auth && pp.is_empty() {
			// left open: `pop` on the empty path after an authority treated as empty relative
			for o in path_outcomes(false, c, &mop).unwrap_or_default() {
				if !outs.contains(&o) {
					outs.push(o);
				}
			}
		}
		if first_expected.is_none() {
			first_expected = outs.first().cloned();
		}
		for (i, o) in outs.into_iter().enumerate() {
			if strip(&o) == &got[..] {
				if i >= primary {
					ambiguous = true;
				}
				if !next.contains(&o) {
					next.push(o);
				}
			}
		}
	}
	if next.is_empty() {
		let e0 = first_expected.unwrap_or_default();
		return Err(Fail {
			oracle: "list_semantics",
			message: format!(
				"{} on segments {:?} gave {:?}",
				op.name(),
				model.cands[0].iter().map(|s| String::from_utf8_lossy(s).into_owned()).collect::<Vec<_>>(),
				segs2.iter().map(|s| String::from_utf8_lossy(s).into_owned()).collect::<Vec<_>>()
			),
			expected: Some({
				let mut e = pre[..a.path.start].to_vec();
				e.extend_from_slice(&render_shielded(abs_eff && !(e0.is_empty() && pp.is_empty()), &e0));
				e.extend_from_slice(&pre[a.path.end..]);
				e
			}),
		});
	}
	if ambiguous {
		stats.hit("ambiguous_accepted");
	}
	if segs2.len() > got.len() {
		stats.hit("probe_shield_present_after");
	}
	next.truncate(8);
	model.cands = next;
	Ok(())
}

/// One step of the list model over a set of candidate lists: the outcomes of `mop` on any
/// candidate that are shield-equivalent to the segment list observed afterwards.
/// `None`: the model has more open readings than it is willing to track and gives no verdict.
fn model_next(cands: &[Segs], abs_eff: bool, also_relative: bool, mop: &MPathOp, observed: &Segs) -> Option<Vec<Segs>> {
	let got = strip(observed).to_vec();
	let mut next: Vec<Segs> = Vec::new();
	for c in cands {
		let mut outs = path_outcomes(abs_eff, c, mop)?;
		if also_relative {
			for o in path_outcomes(false, c, mop)? {
				if !outs.contains(&o) {
					outs.push(o);
				}
			}
		}
		for o in outs {
			if strip(&o) == &got[..] && !next.contains(&o) {
				next.push(o);
			}
		}
	}
	next.truncate(8);
	Some(next)
}

fn to_mop(op: &PathOp) -> Option<MPathOp<'_>> {
	Some(match op {
		PathOp::Push(s) => MPathOp::Push(s.as_bytes()),
		PathOp::Pop => MPathOp::Pop,
		PathOp::Clear => MPathOp::Clear,
		PathOp::SymPush(s) => MPathOp::SymPush(s.as_bytes()),
		PathOp::SymAppend(items, mode) => MPathOp::SymAppend(effective_items(items, *mode).iter().map(|s| s.as_bytes()).collect()),
		PathOp::Normalize | PathOp::Read => return None,
	})
}

/// Threads the list model along the views of ONE run (the continued handle's). A handle is
/// allowed to know more than the text does - e.g. whether a leading '.' was pushed as a segment
/// or written as a shield - so where its views differ from the fresh-handle run they are judged
/// against the model threaded through its own history instead (C10 asks that edits through one
/// handle compose; "as if freshly obtained" is C11's wording, not C10's). Returns the index of
/// the first operation whose view no outcome of the threaded model explains.
fn first_unexplained_view(pre_path: &[u8], follows_auth: bool, ops: &[BOp<PathOp>], views: &[Vec<u8>], fresh_views: &[Vec<u8>], unwound: &[usize]) -> usize {
	let mut cands = PathModel::from_text(pre_path).cands;
	let mut prev: Vec<u8> = pre_path.to_vec();
	let mut diverged = false;
	for i in 0..ops.len().min(views.len()) {
		let v = &views[i];
		if i > 0 && ops[i].life != Life::Keep {
			// a re-obtained handle starts from the text again
			cands = PathModel::from_text(&prev).cands;
		}
		if fresh_views.get(i) != Some(v) {
			diverged = true;
		}
		let (abs2, segs2) = path_segs(v);
		let abs = prev.first() == Some(&b'/');
		match to_mop(&ops[i].op) {
			None => {
				let ok = match ops[i].op {
					PathOp::Read => *v == prev,
					// what normalisation yields is not modelled: before any divergence it must simply
					// agree with the fresh-handle run; afterwards nothing is demanded of it
					_ => diverged || fresh_views.get(i) == Some(v),
				};
				if !ok {
					return i;
				}
				cands = PathModel::from_text(v).cands;
			}
			Some(_) if unwound.contains(&i) => cands = PathModel::from_text(v).cands,
			Some(mop) => {
				if follows_auth && !v.is_empty() && !abs2 {
					return i;
				}
				if !follows_auth && abs2 != abs {
					return i;
				}
				match model_next(&cands, abs || follows_auth, follows_auth && prev.is_empty(), &mop, &segs2) {
					Some(next) if next.is_empty() => return i,
					Some(next) => cands = next,
					None => cands = PathModel::from_text(v).cands,
				}
			}
		}
		prev = v.clone();
	}
	usize::MAX
}

/// C11 model: RFC 3986 section 3.2 reassembly with the one replaced part.
pub fn expected_after_auth_op(pre: &[u8], op: &AuthOp) -> Option<(Vec<u8>, Vec<u8>)> {
	let s = split5(pre);
	let a = s.authority(pre)?;
	let p = split3(a);
	let ui = p.userinfo.as_ref().map(|r| &a[r.clone()]);
	let host = &a[p.host.clone()];
	let port = p.port.as_ref().map(|r| &a[r.clone()]);
	let na = match op {
		AuthOp::SetUserinfo(v) => compose3(v.as_ref().map(|x| x.as_bytes()), host, port),
		AuthOp::SetHost(h) => compose3(ui, h.as_bytes(), port),
		AuthOp::SetPort(v) => compose3(ui, host, v.as_ref().map(|x| x.as_bytes())),
		AuthOp::Read => a.to_vec(),
	};
	let text = compose5(s.scheme(pre), Some(&na), s.path(pre), s.query(pre), s.fragment(pre));
	Some((text, na))
}

// --------------------------------------------------------------------------

fn violation(prop: Prop, oracle: &str, step: usize, op_index: Option<usize>, op: &str, message: String, pre: Option<&[u8]>, expected: Option<&[u8]>, observed: Option<&[u8]>, sig_pre: String, sig_arg: String) -> Outcome {
	Outcome::Violation(Box::new(Violation {
		property: prop.id().to_string(),
		oracle: oracle.to_string(),
		step,
		op_index,
		op: op.to_string(),
		message,
		pre: pre.and_then(txt),
		expected: expected.and_then(txt),
		observed: observed.and_then(txt),
		signature: Some(Signature {
			oracle: oracle.to_string(),
			op: op.to_string(),
			pre: sig_pre,
			arg: sig_arg,
		}),
	}))
}

fn arg_class_opt(v: &Option<String>) -> String {
	match v {
		None => "none".into(),
		Some(s) if s.is_empty() => "empty".into(),
		Some(s) if !s.is_ascii() => "multibyte".into(),
		Some(_) => "some".into(),
	}
}

fn path_arg_class(p: &str) -> String {
	let first = p.trim_start_matches('/').split('/').next().unwrap_or("");
	format!(
		"{}{},first-{}",
		if p.starts_with("//") { "slashslash," } else if p.starts_with('/') { "abs," } else { "rel," },
		path_class(p.as_bytes()),
		seg_class(first)
	)
}

impl Exec {
	pub fn start(prop: Prop, init: &Init, stats: &mut Stats) -> Option<Exec> {
		let owner = match guarded(|| Owner::build(init)) {
			Caught::Ok(Some(o)) => o,
			_ => return None,
		};
		if owner.kind() != init.kind {
			return None;
		}
		if well_formed(owner.kind(), owner.bytes()).is_err() {
			stats.hit("invalid_initial_state");
			return None;
		}
		Some(Exec {
			prop,
			owner: Some(owner),
			step_idx: 0,
			nontrivial: false,
			mutated: false,
		})
	}

	pub fn text(&self) -> &[u8] {
		self.owner.as_ref().map(|o| o.bytes()).unwrap_or(b"")
	}

	pub fn kind(&self) -> Kind {
		self.owner.as_ref().map(|o| o.kind()).unwrap_or(Kind::UriRefBuf)
	}

	fn wf(&self, idx: usize, opname: &str, pre: &[u8], sig_pre: String, sig_arg: String) -> Option<Outcome> {
		if self.prop != Prop::C04 {
			return None;
		}
		let o = self.owner.as_ref()?;
		match well_formed(o.kind(), o.bytes()) {
			Ok(()) => None,
			Err(m) => Some(violation(
				Prop::C04,
				if m.contains("UTF-8") { "not_utf8" } else { "ill_formed" },
				idx,
				None,
				opname,
				format!("after {}: {} ({:?})", opname, m, o.kind()),
				Some(pre),
				None,
				Some(o.bytes()),
				sig_pre,
				sig_arg,
			)),
		}
	}

	pub fn step(&mut self, step: &Step, stats: &mut Stats) -> Outcome {
		self.step_idx += 1;
		self.step_inner(step, stats, false)
	}

	fn step_inner(&mut self, step: &Step, stats: &mut Stats, quiet: bool) -> Outcome {
		let idx = self.step_idx.saturating_sub(if quiet { 0 } else { 1 });
		let kind = self.kind();
		let iri = kind.is_iri();
		let pre: Vec<u8> = self.text().to_vec();
		let armed04 = self.prop == Prop::C04;
		if !quiet {
			stats.op(&step.name());
		}
		match step {
			Step::Set(comp, val) => {
				if kind.is_path() {
					return Outcome::Invalid;
				}
				if let Some(v) = val {
					if !valid_arg(iri, *comp, v) {
						return Outcome::Invalid;
					}
				}
				if val.is_none() && (*comp == Comp::Path || (*comp == Comp::Scheme && kind.needs_scheme())) {
					return Outcome::Invalid;
				}
				let sig_pre = ctx_class(kind, &pre);
				let sig_arg = match (comp, val) {
					(Comp::Path, Some(p)) => path_arg_class(p),
					_ => arg_class_opt(val),
				};
				let name = step.name();
				if !quiet {
					probes_set(&pre, *comp, val.as_deref(), stats);
				}
				let o = self.owner.as_mut().unwrap();
				match guarded(|| o.set(*comp, val.as_deref())) {
					Caught::Ok(true) => {}
					Caught::Ok(false) => return Outcome::Invalid,
					Caught::Panic(m) => {
						return if armed04 {
							violation(Prop::C04, "panic", idx, None, &name, format!("{} panicked: {}", name, m), Some(&pre), None, None, sig_pre, sig_arg)
						} else {
							Outcome::Abandon
						}
					}
					Caught::Injected => unreachable!(),
				}
				if self.text() != &pre[..] {
					self.mutated = true;
				}
				if armed04 && !quiet {
					stats.tuple(&sig_pre, &name, &sig_arg, 0);
				}
				if let Some(v) = self.wf(idx, &name, &pre, sig_pre, sig_arg) {
					return v;
				}
				Outcome::Ok
			}
			Step::Resolve { base, by_value } => {
				if !kind.is_ref() || !valid_base(iri, base) {
					return Outcome::Invalid;
				}
				let name = step.name();
				if !quiet {
					probes_resolve(&pre, base.as_bytes(), stats);
				}
				let sig_pre = ctx_class(kind, &pre);
				let sig_arg = ctx_class(kind, base.as_bytes());
				if *by_value {
					let o = self.owner.take().unwrap();
					match guarded(move || o.into_resolved(base)) {
						Caught::Ok(Ok(n)) => self.owner = Some(n),
						Caught::Ok(Err(_)) => return Outcome::Invalid,
						Caught::Panic(m) => {
							return if armed04 {
								violation(Prop::C04, "panic", idx, None, &name, format!("{} panicked: {}", name, m), Some(&pre), None, None, sig_pre, sig_arg)
							} else {
								Outcome::Abandon
							}
						}
						Caught::Injected => unreachable!(),
					}
				} else {
					let o = self.owner.as_mut().unwrap();
					match guarded(|| o.resolve_in_place(base)) {
						Caught::Ok(true) => {}
						Caught::Ok(false) => return Outcome::Invalid,
						Caught::Panic(m) => {
							return if armed04 {
								violation(Prop::C04, "panic", idx, None, &name, format!("{} panicked: {}", name, m), Some(&pre), None, None, sig_pre, sig_arg)
							} else {
								Outcome::Abandon
							}
						}
						Caught::Injected => unreachable!(),
					}
				}
				self.mutated = true;
				if armed04 && *by_value {
					// into_resolved hands the buffer back as a UriBuf/IriBuf: that is the type it
					// must re-parse as (for the in-place form the type stays the reference type;
					// that the result has a scheme is C06, not C04)
					let full = if iri { Kind::IriBuf } else { Kind::UriBuf };
					if let Err(m) = well_formed(full, self.text()) {
						let t = self.text().to_vec();
						return violation(
							Prop::C04,
							if m.contains("UTF-8") { "not_utf8" } else { "ill_formed" },
							idx,
							None,
							&name,
							format!("after {}: {} ({:?})", name, m, full),
							Some(&pre),
							None,
							Some(&t),
							sig_pre,
							sig_arg,
						);
					}
				}
				if armed04 && !quiet {
					stats.tuple(&sig_pre, &name, &sig_arg, 0);
				}
				if let Some(v) = self.wf(idx, &name, &pre, sig_pre, sig_arg) {
					return v;
				}
				Outcome::Ok
			}
			Step::Convert(to) => {
				let can = matches!(
					(kind, *to),
					(Kind::UriBuf, Kind::UriRefBuf | Kind::IriBuf | Kind::IriRefBuf)
						| (Kind::UriRefBuf, Kind::IriRefBuf | Kind::UriBuf | Kind::IriBuf)
						| (Kind::IriBuf, Kind::IriRefBuf | Kind::UriBuf | Kind::UriRefBuf)
						| (Kind::IriRefBuf, Kind::IriBuf | Kind::UriBuf | Kind::UriRefBuf)
				);
				if !can {
					return Outcome::Invalid;
				}
				let name = step.name();
				let o = self.owner.take().unwrap();
				let to = *to;
				match guarded(move || o.convert(to)) {
					Caught::Ok(Ok(n)) => self.owner = Some(n),
					Caught::Ok(Err(())) => return Outcome::Invalid,
					Caught::Panic(_) => {
						// a conversion is a way of obtaining a buffer, not one of C04's mutators
						if !quiet {
							stats.hit("conversion_panicked_run_abandoned");
						}
						return Outcome::Abandon;
					}
					Caught::Injected => unreachable!(),
				}
				// Conversions are C13: whether one preserves the text, or hands out a value of a
				// type its text does not belong to, is not C04's statement. Such a buffer is not a
				// valid starting point for further edits either, so the run ends here.
				let _ = (&name, idx);
				if let Some(o) = self.owner.as_ref() {
					if well_formed(o.kind(), o.bytes()).is_err() {
						if !quiet {
							stats.hit("invalid_after_conversion_run_abandoned");
						}
						return Outcome::Abandon;
					}
				}
				Outcome::Ok
			}
			Step::Roundtrip => {
				let o = self.owner.take().unwrap();
				match guarded(move || o.roundtrip()) {
					Caught::Ok(Some(n)) => {
						self.owner = Some(n);
						if !quiet {
							stats.hit("fault_roundtrip");
						}
						Outcome::Ok
					}
					Caught::Ok(None) | Caught::Panic(_) => {
						if armed04 {
							violation(Prop::C04, "ill_formed", idx, None, "roundtrip", "the buffer's own text is rejected by its checked constructor".into(), Some(&pre), None, Some(&pre), ctx_class(kind, &pre), String::new())
						} else {
							Outcome::Abandon
						}
					}
					Caught::Injected => unreachable!(),
				}
			}
			Step::CloneTwin => {
				// the history continues on a clone (exact capacity, new allocation); C04 states
				// nothing about two copies agreeing, so no comparison is made
				if let Some(c) = self.owner.clone() {
					self.owner = Some(c);
					if !quiet {
						stats.hit("fault_continue_on_clone");
					}
				}
				Outcome::Ok
			}
			Step::Direct(op) => {
				if !kind.is_path() || !valid_path_op(iri, op) {
					return Outcome::Invalid;
				}
				let name = format!("direct_{}", op.name());
				let sig_pre = ctx_class(kind, &pre);
				let sig_arg = path_op_arg_class(op);
				let o = self.owner.as_mut().unwrap();
				let mut unwound = false;
				match guarded(|| o.direct(op)) {
					Caught::Ok(_) => {}
					Caught::Injected => {
						unwound = true;
						if !quiet {
							stats.hit("fault_iter_unwind");
						}
					}
					Caught::Panic(m) => {
						return if self.prop == Prop::C11 {
							Outcome::Abandon
						} else {
							violation(self.prop, "panic", idx, None, &name, format!("{} panicked: {}", name, m), Some(&pre), None, None, sig_pre, sig_arg)
						}
					}
				}
				if self.text() != &pre[..] {
					self.mutated = true;
				}
				if self.prop == Prop::C10 {
					let post = self.text().to_vec();
					let mut pm = PathModel::from_text(split_for(kind, &pre).path(&pre));
					if let Err(f) = check_path_step(kind, &pre, &post, op, unwound, &mut pm, stats) {
						return violation(Prop::C10, f.oracle, idx, None, &name, f.message, Some(&pre), f.expected.as_deref(), Some(&post), sig_pre, sig_arg);
					}
				}
				if armed04 && !quiet {
					stats.tuple(&sig_pre, &name, &sig_arg, 0);
				}
				if let Some(v) = self.wf(idx, &name, &pre, sig_pre, sig_arg) {
					return v;
				}
				Outcome::Ok
			}
			Step::PathBurst(ops) => self.path_burst_step(ops, idx, stats, quiet),
			Step::AuthBurst(ops) => self.auth_burst_step(ops, idx, stats, quiet),
		}
	}

	fn path_burst_step(&mut self, ops: &[BOp<PathOp>], idx: usize, stats: &mut Stats, quiet: bool) -> Outcome {
		let kind = self.kind();
		let iri = kind.is_iri();
		if ops.is_empty() || !ops.iter().all(|o| valid_path_op(iri, &o.op)) {
			return Outcome::Invalid;
		}
		let pre: Vec<u8> = self.text().to_vec();
		let prop = self.prop;
		let mut b_owner = self.owner.clone().unwrap();
		let a = self.owner.as_mut().unwrap().path_burst(ops, false);
		if quiet {
			return if a.panic.is_some() { Outcome::Abandon } else { Outcome::Ok };
		}
		let b = b_owner.path_burst(ops, true);
		stats.add("fault_reopen", a.faults_reopen as u64);
		stats.add("fault_leak", a.faults_leak as u64);
		stats.add("fault_iter_unwind", a.unwound.len() as u64);
		stats.add("twin_reopens", b.faults_reopen as u64);
		stats.add("steps_in_bursts", (a.views.len() + b.views.len()) as u64);

		let sig_of = |i: usize, text_before: &[u8]| -> (String, String) {
			let later = if i > 0 { ",later-in-burst" } else { ",first-in-burst" };
			(format!("{}{}", ctx_class(kind, text_before), later), path_op_arg_class(&ops[i].op))
		};
		// text before op i in run B (always known: B reopens before every op)
		let b_before = |i: usize| -> &[u8] { b.between.get(i).and_then(|x| x.as_deref()).unwrap_or(&pre) };
		let b_after = |i: usize| -> &[u8] {
			if i + 1 < b.between.len() {
				b.between[i + 1].as_deref().unwrap_or(&b.final_text)
			} else {
				&b.final_text
			}
		};

		if prop == Prop::C11 {
			// path bursts only serve as set-up in C11 runs
			return if a.panic.is_some() { Outcome::Abandon } else { Outcome::Ok };
		}

		// oracle 1: no panic (B first: it is the run whose states are all observable)
		for (log, which) in [(&b, "fresh handle per edit"), (&a, "one handle")] {
			if let Some((i, phase, m)) = &log.panic {
				let before = if which.starts_with("fresh") { b_before(*i).to_vec() } else { b_before((*i).min(b.between.len().saturating_sub(1))).to_vec() };
				let (sp, sa) = sig_of(*i, &before);
				let opn = ops[*i].op.name();
				let oracle = if which.starts_with("fresh") { "panic" } else { "panic_continued_handle" };
				return violation(prop, oracle, idx, Some(*i), opn, format!("{} ({}, {}) panicked: {}", opn, which, phase, m), Some(&before), None, None, sp, sa);
			}
		}

		if prop == Prop::C04 {
			for i in 0..ops.len() {
				let (sp, sa) = sig_of(i, b_before(i));
				stats.tuple(&sp, &ops[i].op.name(), &sa, ops[i].life as u8);
			}
			// oracle 2 on every observable intermediate text of both runs
			for (log, which) in [(&b, "B"), (&a, "A")] {
				let mut texts: Vec<(usize, &[u8])> = Vec::new();
				for (i, t) in log.between.iter().enumerate().skip(1) {
					if let Some(t) = t {
						texts.push((i - 1, t));
					}
				}
				texts.push((ops.len() - 1, &log.final_text));
				for (i, t) in texts {
					if let Err(m) = well_formed(kind, t) {
						let before = b_before(i).to_vec();
						let (sp, sa) = sig_of(i, &before);
						let opn = ops[i].op.name();
						return violation(
							Prop::C04,
							if m.contains("UTF-8") { "not_utf8" } else { "ill_formed" },
							idx,
							Some(i),
							opn,
							format!("after {} through PathMut (run {}): {} ({:?})", opn, which, m, kind),
							Some(&before),
							None,
							Some(t),
							sp,
							sa,
						);
					}
				}
			}
			if a.final_text != pre {
				self.mutated = true;
				if ops.len() >= 2 {
					self.nontrivial = true;
				}
			}
			return Outcome::Ok;
		}

		// ---- C10 ----
		// oracle 3 + 4 on run B, operation by operation
		let mut pm;
		for i in 0..ops.len() {
			let before = b_before(i);
			let after = b_after(i);
			let unwound = b.unwound.contains(&i);
			let (sp, sa) = sig_of(i, before);
			let opn = ops[i].op.name();
			stats.tuple(&sp, &opn, &sa, 1);
			// Both readings of a leading '.' in the text before the edit are kept (shield or
			// segment): the text cannot tell them apart, so no implementation working on the
			// text can be asked to (see DESIGN 2.4).
			pm = PathModel::from_text(split_for(kind, before).path(before));
			if let Err(f) = check_path_step(kind, before, after, &ops[i].op, unwound, &mut pm, stats) {
				return violation(Prop::C10, f.oracle, idx, Some(i), opn, f.message, Some(before), f.expected.as_deref(), Some(after), sp, sa);
			}
			let s = split_for(kind, after);
			let path_after = s.path(after);
			if b.views[i] != path_after {
				return violation(Prop::C10, "handle_view", idx, Some(i), opn, "the handle (fresh) does not view the path text after the edit".into(), Some(before), Some(path_after), Some(&b.views[i]), sp, sa);
			}
			probes_path(kind, before, after, &ops[i].op, stats);
		}
		// oracle 5: restart equivalence. The continued handle (run A) must agree with the
		// fresh-handle run (B) - or, where it does not, be explained by the list model threaded
		// through its own history, leave the other components alone and view its own path.
		let s_pre = split_for(kind, &pre);
		let follows_auth0 = s_pre.authority.is_some();
		let unexplained = first_unexplained_view(s_pre.path(&pre), follows_auth0, ops, &a.views, &b.views, &a.unwound);
		let frame_ok = |t: &[u8]| -> bool {
			let st = split_for(kind, t);
			st.scheme(t) == s_pre.scheme(&pre) && st.authority(t) == s_pre.authority(&pre) && st.query(t) == s_pre.query(&pre) && st.fragment(t) == s_pre.fragment(&pre)
		};
		for i in 0..ops.len() {
			let before = b_before(i);
			let (sp, sa) = sig_of(i, before);
			let opn = ops[i].op.name();
			let life = match ops[i].life {
				Life::Keep => 0,
				Life::Reopen => 1,
				Life::Leak => 2,
			};
			stats.tuple(&sp, &opn, &sa, if i == 0 { 1 } else { life });
			if a.views[i] != b.views[i] {
				if i < unexplained {
					stats.hit("continued_handle_differs_but_is_explained_by_the_model");
				} else {
					return violation(
						Prop::C10,
						"restart_equivalence",
						idx,
						Some(i),
						opn,
						"the view through the continued handle differs from a fresh handle's after the same edits, and the list model threaded through the handle's own history does not explain it".into(),
						Some(before),
						Some(&b.views[i]),
						Some(&a.views[i]),
						sp,
						sa,
					);
				}
			}
			if let Some(Some(t)) = a.between.get(i) {
				if t.as_slice() != before && !(i <= unexplained && frame_ok(t) && i > 0 && split_for(kind, t).path(t) == &a.views[i - 1][..]) {
					return violation(Prop::C10, "restart_equivalence", idx, Some(i), opn, "buffer text under the continued handle differs from the fresh-handle run".into(), Some(before), Some(before), Some(t), sp, sa);
				}
			}
		}
		if a.final_text != b.final_text {
			let i = ops.len() - 1;
			let sf = split_for(kind, &a.final_text);
			let explained = unexplained == usize::MAX && frame_ok(&a.final_text) && a.views.last().map(|v| &v[..]) == Some(sf.path(&a.final_text));
			if !explained {
				let (sp, sa) = sig_of(i, b_before(i));
				let oracle = if unexplained == usize::MAX && !frame_ok(&a.final_text) { "frame_after_continued_handle" } else { "restart_equivalence" };
				return violation(Prop::C10, oracle, idx, Some(i), ops[i].op.name(), "final buffer differs between the continued-handle run and the fresh-handle run".into(), Some(&pre), Some(&b.final_text), Some(&a.final_text), sp, sa);
			}
		}
		// oracle 4 (window): the last view occupies exactly the model-located range
		let s = split_for(kind, &a.final_text);
		if let Some((off, len)) = a.end_window {
			// (an empty view carries no byte: where it points is not observable)
			if len + s.path.len() > 0 && (off, len) != (s.path.start, s.path.len()) {
				let i = ops.len() - 1;
				let (sp, sa) = sig_of(i, b_before(i));
				return violation(
					Prop::C10,
					"handle_window",
					idx,
					Some(i),
					ops[i].op.name(),
					format!("handle window is {}..{} but the path occupies {}..{}", off, off.wrapping_add(len), s.path.start, s.path.end),
					Some(&pre),
					None,
					Some(&a.final_text),
					sp,
					sa,
				);
			}
		}
		// oracle 6: stand-alone == embedded
		if !kind.is_path() {
			let s0 = split5(&pre);
			let p0 = s0.path(&pre);
			// After an authority the empty path is written "" or "/" and is absolute either way:
			// absoluteness is compared only once a segment exists. When the burst STARTS from the
			// empty path after an authority the comparison is skipped altogether, because what
			// `pop` does there is left open (DESIGN 2.4) and a stand-alone path has no such state.
			let after_auth = s0.authority.is_some();
			let skip = after_auth && p0.is_empty();
			if !skip {
				let pk = if iri { Kind::IriPathBuf } else { Kind::UriPathBuf };
				if let Some(mut po) = parse_kind(pk, p0) {
					let c = po.path_burst(ops, false);
					stats.hit("standalone_twin_bursts");
					if c.panic.is_none() {
						for i in 0..ops.len().min(c.views.len()) {
							let (ea, es) = path_segs(&a.views[i]);
							let (ca, cs) = path_segs(&c.views[i]);
							let abs_differs = ea != ca && !(after_auth && es.is_empty() && cs.is_empty());
							if abs_differs || strip(&es) != strip(&cs) {
								let (sp, sa) = sig_of(i, b_before(i));
								return violation(
									Prop::C10,
									"standalone_vs_embedded",
									idx,
									Some(i),
									ops[i].op.name(),
									"the same edits give a different path on a stand-alone PathBuf".into(),
									Some(&pre),
									Some(&c.views[i]),
									Some(&a.views[i]),
									sp,
									sa,
								);
							}
						}
					} else if let Some((i, _, m)) = &c.panic {
						let (sp, sa) = sig_of(*i, p0);
						return violation(Prop::C10, "panic", idx, Some(*i), ops[*i].op.name(), format!("stand-alone PathBuf twin panicked: {}", m), Some(p0), None, None, format!("standalone,{}", sp), sa);
					}
				}
			}
		}
		if a.final_text != pre {
			self.mutated = true;
			if ops.len() >= 2 {
				self.nontrivial = true;
			}
		}
		Outcome::Ok
	}

	fn auth_burst_step(&mut self, ops: &[BOp<AuthOp>], idx: usize, stats: &mut Stats, quiet: bool) -> Outcome {
		let kind = self.kind();
		let iri = kind.is_iri();
		if kind.is_path() || ops.is_empty() || !ops.iter().all(|o| valid_auth_op(iri, &o.op)) {
			return Outcome::Invalid;
		}
		let pre: Vec<u8> = self.text().to_vec();
		if split5(&pre).authority.is_none() {
			return Outcome::Invalid;
		}
		let prop = self.prop;
		let mut b_owner = self.owner.clone().unwrap();
		let a = match self.owner.as_mut().unwrap().auth_burst(ops, false) {
			Some(a) => a,
			None => {
				// the reference has an authority (RFC 3986 Appendix B) but the library hands out
				// no handle for it: the edits C11 is about cannot be made at all
				if !quiet {
					stats.hit("authority_handle_unavailable");
				}
				return if prop == Prop::C11 {
					let s = split5(&pre);
					let au = s.authority(&pre).unwrap_or(b"");
					violation(Prop::C11, "handle_unavailable", idx, Some(0), ops[0].op.name(), "the reference has an authority but authority_mut() returns None".into(), Some(&pre), None, None, format!("{},first-in-burst", auth_class(au)), "none".into())
				} else {
					Outcome::Abandon
				};
			}
		};
		if quiet {
			return if a.panic.is_some() { Outcome::Abandon } else { Outcome::Ok };
		}
		let b = match b_owner.auth_burst(ops, true) {
			Some(b) => b,
			None => return Outcome::Invalid,
		};
		stats.add("fault_reopen", a.faults_reopen as u64);
		stats.add("fault_leak", a.faults_leak as u64);
		stats.add("twin_reopens", b.faults_reopen as u64);
		stats.add("steps_in_bursts", (a.views.len() + b.views.len()) as u64);

		let b_before = |i: usize| -> &[u8] { b.between.get(i).and_then(|x| x.as_deref()).unwrap_or(&pre) };
		let b_after = |i: usize| -> &[u8] {
			if i + 1 < b.between.len() {
				b.between[i + 1].as_deref().unwrap_or(&b.final_text)
			} else {
				&b.final_text
			}
		};
		let sig_of = |i: usize, before: &[u8]| -> (String, String) {
			let s = split5(before);
			let au = s.authority(before).unwrap_or(b"");
			let later = if i > 0 { ",later-in-burst" } else { ",first-in-burst" };
			(format!("{}{}", auth_class(au), later), auth_op_arg_class(au, &ops[i].op))
		};

		if prop == Prop::C10 {
			return if a.panic.is_some() { Outcome::Abandon } else { Outcome::Ok };
		}

		// Which run do we trust for "before" texts when B itself panicked early?
		for (log, fresh) in [(&b, true), (&a, false)] {
			if let Some((i, phase, m)) = &log.panic {
				// text before op i: from B when available, else model-predicted
				let before: Vec<u8> = if *i < b.between.len() { b_before(*i).to_vec() } else { pre.clone() };
				let (sp, sa) = sig_of(*i, &before);
				let opn = ops[*i].op.name();
				let oracle = if fresh { "panic" } else { "panic_continued_handle" };
				return violation(prop, oracle, idx, Some(*i), opn, format!("{} ({}, {}) panicked: {}", opn, if fresh { "fresh handle per edit" } else { "one handle" }, phase, m), Some(&before), None, None, sp, sa);
			}
		}

		if prop == Prop::C04 {
			for i in 0..ops.len() {
				let (sp, sa) = sig_of(i, b_before(i));
				stats.tuple(&sp, &ops[i].op.name(), &sa, ops[i].life as u8);
			}
			for (log, which) in [(&b, "B"), (&a, "A")] {
				let mut texts: Vec<(usize, &[u8])> = Vec::new();
				for (i, t) in log.between.iter().enumerate().skip(1) {
					if let Some(t) = t {
						texts.push((i - 1, t));
					}
				}
				texts.push((ops.len() - 1, &log.final_text));
				for (i, t) in texts {
					if let Err(m) = well_formed(kind, t) {
						let before = b_before(i).to_vec();
						let (sp, sa) = sig_of(i, &before);
						let opn = ops[i].op.name();
						return violation(
							Prop::C04,
							if m.contains("UTF-8") { "not_utf8" } else { "ill_formed" },
							idx,
							Some(i),
							opn,
							format!("after {} through AuthorityMut (run {}): {} ({:?})", opn, which, m, kind),
							Some(&before),
							None,
							Some(t),
							sp,
							sa,
						);
					}
				}
			}
			if a.final_text != pre {
				self.mutated = true;
				if ops.len() >= 2 {
					self.nontrivial = true;
				}
			}
			return Outcome::Ok;
		}

		// ---- C11 ----
		for i in 0..ops.len() {
			let before = b_before(i);
			let after = b_after(i);
			let (sp, sa) = sig_of(i, before);
			let opn = ops[i].op.name();
			stats.tuple(&sp, &opn, &sa, 1);
			let (exp_text, exp_auth) = match expected_after_auth_op(before, &ops[i].op) {
				Some(x) => x,
				None => {
					return violation(Prop::C11, "authority_lost", idx, Some(i), opn, "the reference no longer has an authority".into(), Some(before), None, Some(after), sp, sa);
				}
			};
			if after != &exp_text[..] {
				// classify: which component moved?
				let s1 = split5(&exp_text);
				let s2 = split5(after);
				let oracle = if s1.scheme(&exp_text) != s2.scheme(after) {
					"frame_scheme"
				} else if s1.path(&exp_text) != s2.path(after) {
					"frame_path"
				} else if s1.query(&exp_text) != s2.query(after) {
					"frame_query"
				} else if s1.fragment(&exp_text) != s2.fragment(after) {
					"frame_fragment"
				} else {
					"sub_component"
				};
				return violation(Prop::C11, oracle, idx, Some(i), opn, format!("{} did not produce the RFC 3986 3.2 reassembly with that one part replaced", opn), Some(before), Some(&exp_text), Some(after), sp, sa);
			}
			if b.views[i] != exp_auth {
				return violation(Prop::C11, "handle_view", idx, Some(i), opn, "the handle (fresh) does not view the new authority text after the call".into(), Some(before), Some(&exp_auth), Some(&b.views[i]), sp, sa);
			}
			probes_auth(before, &ops[i].op, stats);
		}
		if let Some(i) = b.deref_mismatch.or(a.deref_mismatch) {
			let (sp, sa) = sig_of(i, b_before(i));
			return violation(Prop::C11, "deref_vs_as_authority", idx, Some(i), ops[i].op.name(), "Deref and as_authority() disagree".into(), Some(b_before(i)), None, None, sp, sa);
		}
		for i in 0..ops.len() {
			let before = b_before(i);
			let (sp, sa) = sig_of(i, before);
			let opn = ops[i].op.name();
			let life = match ops[i].life {
				Life::Keep => 0,
				Life::Reopen => 1,
				Life::Leak => 2,
			};
			stats.tuple(&sp, &opn, &sa, if i == 0 { 1 } else { life });
			if a.views[i] != b.views[i] {
				return violation(
					Prop::C11,
					"restart_equivalence",
					idx,
					Some(i),
					opn,
					"the view through the continued handle differs from a fresh handle's after the same edits".into(),
					Some(before),
					Some(&b.views[i]),
					Some(&a.views[i]),
					sp,
					sa,
				);
			}
			if let Some(Some(t)) = a.between.get(i) {
				if t.as_slice() != before {
					return violation(Prop::C11, "restart_equivalence", idx, Some(i), opn, "buffer text under the continued handle differs from the fresh-handle run".into(), Some(before), Some(before), Some(t), sp, sa);
				}
			}
		}
		if a.final_text != b.final_text {
			let i = ops.len() - 1;
			let (sp, sa) = sig_of(i, b_before(i));
			return violation(Prop::C11, "restart_equivalence", idx, Some(i), ops[i].op.name(), "final buffer differs between the continued-handle run and the fresh-handle run".into(), Some(&pre), Some(&b.final_text), Some(&a.final_text), sp, sa);
		}
		let s = split5(&a.final_text);
		let ar = s.authority.clone().unwrap_or(0..0);
		for (w, what) in [(a.end_window, "handle_window"), (a.into_window, "into_authority_window")] {
			if let Some((off, len)) = w {
				if len + ar.len() > 0 && (off, len) != (ar.start, ar.len()) {
					let i = ops.len() - 1;
					let (sp, sa) = sig_of(i, b_before(i));
					return violation(
						Prop::C11,
						what,
						idx,
						Some(i),
						ops[i].op.name(),
						format!("{} is {}..{} but the authority occupies {}..{}", what, off, off.wrapping_add(len), ar.start, ar.end),
						Some(&pre),
						None,
						Some(&a.final_text),
						sp,
						sa,
					);
				}
			}
		}
		if a.final_text != pre {
			self.mutated = true;
			if ops.len() >= 2 {
				self.nontrivial = true;
			}
		}
		Outcome::Ok
	}
}

/// Reach probes for the disambiguation branches of the whole-buffer setters.
fn probes_set(pre: &[u8], comp: Comp, val: Option<&str>, stats: &mut Stats) {
	let s = split5(pre);
	let p = s.path(pre);
	let first_has_colon = |p: &[u8]| p.split(|b| *b == b'/').next().map(|x| x.contains(&b':')).unwrap_or(false);
	match (comp, val) {
		(Comp::Path, Some(v)) => {
			let v = v.as_bytes();
			if s.authority.is_none() && v.starts_with(b"//") {
				stats.hit("probe_set_path_slashslash_without_authority");
			}
			if s.authority.is_some() && !v.starts_with(b"/") {
				stats.hit("probe_set_relative_path_with_authority");
			}
			if s.scheme.is_none() && s.authority.is_none() && first_has_colon(v) {
				stats.hit("probe_set_path_colon_first_segment_bare");
			}
		}
		(Comp::Scheme, None) => {
			if s.scheme.is_some() && s.authority.is_none() && first_has_colon(p) {
				stats.hit("probe_remove_scheme_before_colon_segment");
			}
		}
		(Comp::Authority, None) => {
			if s.authority.is_some() && p.starts_with(b"//") {
				stats.hit("probe_remove_authority_before_slashslash_path");
			}
		}
		(Comp::Authority, Some(_)) => {
			if s.authority.is_none() && !p.starts_with(b"/") {
				stats.hit("probe_add_authority_before_relative_path");
			}
		}
		(Comp::Query, Some(_)) | (Comp::Fragment, Some(_)) => {
			if !pre.is_ascii() {
				stats.hit("probe_setter_on_multibyte_text");
			}
		}
		_ => {}
	}
}

/// Reach probes for the five branches of RFC 3986 5.2.2.
fn probes_resolve(reference: &[u8], base: &[u8], stats: &mut Stats) {
	let r = split5(reference);
	let b = split5(base);
	let rp = r.path(reference);
	stats.hit(if r.scheme.is_some() {
		"probe_resolve_branch_scheme"
	} else if r.authority.is_some() {
		"probe_resolve_branch_authority"
	} else if rp.is_empty() {
		"probe_resolve_branch_empty_path"
	} else if rp.starts_with(b"/") {
		"probe_resolve_branch_absolute_path"
	} else {
		"probe_resolve_branch_merge"
	});
	if b.authority.is_some() && b.path(base).is_empty() {
		stats.hit("probe_resolve_base_authority_empty_path");
	}
	if b.path(base).starts_with(b"//") {
		stats.hit("probe_resolve_base_path_leading_empty_segment");
	}
	if rp.split(|c| *c == b'/').any(|s| s == b"..") {
		stats.hit("probe_resolve_reference_with_dotdot");
	}
}

fn probes_path(kind: Kind, before: &[u8], after: &[u8], op: &PathOp, stats: &mut Stats) {
	let a = split_for(kind, before);
	let b = split_for(kind, after);
	let pp = a.path(before);
	let qp = b.path(after);
	let (_, s1) = path_segs(pp);
	let (_, s2) = path_segs(qp);
	let sh1 = strip(&s1).len() != s1.len();
	let sh2 = strip(&s2).len() != s2.len();
	if !sh1 && sh2 {
		stats.hit("probe_shield_inserted");
	}
	if sh1 && !sh2 {
		stats.hit("probe_shield_removed");
	}
	if a.authority.is_some() && pp.is_empty() {
		stats.hit("probe_edit_on_empty_path_after_authority");
	}
	if a.scheme.is_none() && a.authority.is_none() && !kind.is_path() {
		stats.hit("probe_edit_without_scheme_and_authority");
	}
	match op {
		PathOp::Pop => {
			if s1.is_empty() && !pp.starts_with(b"/") {
				stats.hit("probe_pop_on_empty_relative");
			}
			if s1.is_empty() && pp.starts_with(b"/") {
				stats.hit("probe_pop_on_empty_absolute");
			}
			if s1.last().map(|s| s.as_slice()) == Some(b"..") {
				stats.hit("probe_pop_after_dotdot");
			}
		}
		PathOp::Push(s) | PathOp::SymPush(s) => {
			if s.contains(':') && s1.is_empty() {
				stats.hit("probe_colon_segment_onto_empty_path");
			}
			if s.is_empty() && s1.is_empty() {
				stats.hit("probe_empty_segment_onto_empty_path");
			}
			if !s.is_ascii() {
				stats.hit("probe_multibyte_segment");
			}
		}
		_ => {}
	}
	if s1.len() > 16 {
		stats.hit("probe_more_than_16_segments");
	}
	if pp.len() > 512 {
		stats.hit("probe_more_than_512_bytes");
	}
	if before.len() > a.path.end && !before[a.path.end..].is_ascii() || (a.path.start > 0 && !before[..a.path.start].is_ascii()) {
		stats.hit("probe_multibyte_neighbour_of_splice");
	}
}

fn probes_auth(before: &[u8], op: &AuthOp, stats: &mut Stats) {
	let s = split5(before);
	let au = s.authority(before).unwrap_or(b"");
	let p = split3(au);
	let h = &au[p.host.clone()];
	if h.first() == Some(&b'[') {
		stats.hit("probe_host_ip_literal");
	}
	if h.is_empty() {
		stats.hit("probe_host_empty");
	}
	if let Some(r) = &p.userinfo {
		if au[r.clone()].contains(&b':') {
			stats.hit("probe_userinfo_with_colon");
		}
	}
	match auth_op_arg_class(au, op).as_str() {
		"longer" | "longer,ip-literal" => stats.hit("probe_replacement_longer"),
		"shorter" | "shorter,ip-literal" => stats.hit("probe_replacement_shorter"),
		"same-length" | "same-length,ip-literal" => stats.hit("probe_replacement_same_length"),
		"added" => stats.hit("probe_part_added"),
		"removed" => stats.hit("probe_part_removed"),
		_ => {}
	}
	if !before[s.authority.clone().unwrap().end..].is_ascii() {
		stats.hit("probe_multibyte_neighbour_of_splice");
	}
}

// --------------------------------------------------------------------------
// generation

#[derive(Clone, Debug)]
pub struct RunCfg {
	pub sw: Swarm,
	pub max_steps: usize,
	pub max_burst: usize,
	/// per-op lifecycle weights: keep, reopen, leak
	pub w_life: [u32; 3],
	pub iter_faults: bool,
	/// an unwinding caller iterator is injected only where the property speaks about it (C04:
	/// the type invariant must survive it); C10/C11 quantify over valid arguments only
	pub allow_unwind: bool,
	pub owner_events: bool,
	/// step-kind weights: set, resolve, convert, path burst, authority burst, direct, roundtrip, clone twin
	pub w_step: [u32; 8],
}

pub fn draw_cfg(rng: &mut Rng, prop: Prop, thorough: bool, kind: Kind) -> RunCfg {
	let sw = Swarm::draw(rng, kind.is_iri());
	let (ms, mb) = if thorough { (*rng.pick(&[3, 6, 12, 24, 40, 40, 80]), *rng.pick(&[2, 4, 8, 16])) } else { (*rng.pick(&[2, 3, 5, 8]), *rng.pick(&[2, 3, 4, 6])) };
	let w_life = match rng.below(6) {
		0 => [1, 0, 0],  // never give the handle up
		1 => [0, 1, 0],  // reopen before every op
		2 => [6, 1, 1],
		3 => [2, 1, 0],
		4 => [2, 0, 1],
		_ => [8, 1, 0],
	};
	let mut w_step: [u32; 8] = match prop {
		Prop::C04 => [6, 2, 1, 5, 4, 0, 1, 1],
		Prop::C10 => [3, 0, 0, 10, 0, 0, 1, 0],
		Prop::C11 => [2, 0, 0, 0, 10, 0, 1, 0],
	};
	if kind.is_path() {
		w_step = [0, 0, 0, 8, 0, 4, 1, if prop == Prop::C04 { 1 } else { 0 }];
	}
	// swarm: knock out optional step kinds in some runs
	for i in [1usize, 2, 6, 7] {
		if rng.chance(1, 3) {
			w_step[i] = 0;
		}
	}
	RunCfg {
		sw,
		max_steps: ms,
		max_burst: mb,
		w_life,
		iter_faults: rng.chance(1, 3),
		allow_unwind: prop == Prop::C04,
		owner_events: rng.chance(1, 2),
		w_step,
	}
}

/// Bases and references of RFC 3986 section 5.4 plus abnormal shapes, for the resolve steps.
const RESOLVE_BASES: &[&str] = &[
	"http://a/b/c/d;p?q", "http://a//b/c", "http://a", "http://a/", "s://h/..", "s:/", "s:", "s:a/b", "s:a:b", "s:/.//x", "s://h//", "s://u@[::1]:8/x/../y?q#f", "a+b:/./?q#f",
];
const RESOLVE_REFS: &[&str] = &[
	"g:h", "g", "./g", "g/", "/g", "//g", "?y", "g?y", "#s", "g#s", "g?y#s", ";x", "g;x", "g;x?y#s", "", ".", "./", "..", "../", "../g", "../..", "../../", "../../g",
	"../../../g", "../../../../g", "/./g", "/../g", "g.", ".g", "g..", "..g", "./../g", "./g/.", "g/./h", "g/../h", "g;x=1/./y", "g;x=1/../y", "g?y/./x", "g?y/../x", "g#s/./x", "g#s/../x",
	"//g/../x", "//g/a:b", "./a:b", "../a:b", "..//x", ".//x", "/..//x", "//h", "//h:", "../x/y", "a:b/../c",
];

/// Path shapes around the shield rules and the window arithmetic (all valid stand-alone paths).
const CURATED_PATHS: &[&str] = &[
	"", "/", "./", "/./", ".", "/.", "..", "/..", "./x", "/./x", ".//x", "/.//x", "./a:b", "/./a:b", "//", "///", "//x", "a/", "a//", "/a/./", "a/./", "a/..", "a/../", "/a/..",
	"a/../b:c", "/..//x", "a/..//x", "x/./", "x/../..", "a..", "...", "a/b..", "./.", "/././", "./:", ":", "a:b/..", "./a:b/..",
	// nested-URI shapes: a first segment ending in ':' followed by an empty segment
	":://", "x:://y", "3d://m/t", "my_app://open/page", "%41://x", "https://h/x", "a:/b", "a:b//c", "@://", "1:",
];

/// A path whose byte length is chosen around the 512-byte threshold (or well beyond it) and
/// whose segment count is beyond 16, with an optional dot-segment prefix that normalisation
/// removes and a first surviving segment of every interesting class.
fn long_path(g: &mut Gen) -> String {
	let target = *g.rng.pick(&[300usize, 505, 509, 510, 511, 512, 513, 514, 515, 520, 600, 900, 1500]);
	let mut s = String::new();
	s.push_str(*g.rng.pick(&["", "", "/", "/", "x/../", "/../", "./", "x/y/../../", "/x/../", "../"]));
	s.push_str(*g.rng.pick(&["a", "a", "seg", "c:", "a:b", "12:30", "", "", ".", "..", "%3A"]));
	let mid_dots = g.rng.chance(1, 3);
	loop {
		let seg = if mid_dots && g.rng.chance(1, 6) {
			g.rng.pick(&[".", "..", ""]).to_string()
		} else if g.rng.chance(1, 3) {
			g.segment()
		} else {
			let n = g.rng.range(1, 24);
			g.chars(n, b"")
		};
		if s.len() + 1 + seg.len() > target {
			break;
		}
		s.push('/');
		s.push_str(&seg);
	}
	// land exactly on the target length: one more padded segment
	if s.len() < target {
		s.push('/');
		while s.len() < target {
			s.push('p');
		}
	}
	s
}

pub fn gen_init(rng: &mut Rng, prop: Prop, stats: &mut Stats) -> (Init, Swarm) {
	let kinds: &[Kind] = match prop {
		Prop::C11 => &[Kind::UriBuf, Kind::UriRefBuf, Kind::IriBuf, Kind::IriRefBuf],
		_ => &Kind::ALL,
	};
	let kind = *rng.pick(kinds);
	let sw = Swarm::draw(rng, kind.is_iri());
	for _ in 0..20 {
		let mut g = Gen { rng, sw: &sw };
		let mut route = match g.rng.below(10) {
			0 => Route::FromStr,
			1 => Route::TryFrom,
			2 => Route::FromVec,
			3 => Route::ToOwned,
			4 => Route::Default,
			5 => Route::FromScheme,
			6 => Route::ConvertedFrom(*g.rng.pick(&Kind::ALL[..4])),
			_ => Route::New,
		};
		let text = match route {
			Route::Default => String::new(),
			Route::FromScheme => format!("{}:", g.scheme()),
			_ => {
				if prop != Prop::C11 && g.rng.chance(1, 16) {
					// long mode: a path built to sit at or beyond the two inline-buffer thresholds of
					// the normaliser (16 segments, 512 bytes), with the shapes that matter in front
					let long = long_path(&mut g);
					if kind.is_path() {
						long
					} else {
						let prefix = if kind.needs_scheme() { *g.rng.pick(&["s:", "s://h", "s://h:8"]) } else { *g.rng.pick(&["", "", "s:", "//h", "s://h"]) };
						let mut path = long;
						if prefix.contains("//") && !path.starts_with('/') {
							path.insert(0, '/');
						}
						if !prefix.contains("//") && path.starts_with("//") {
							path.insert_str(0, "/.");
						}
						if prefix.is_empty() && path.split('/').next().map(|x| x.contains(':')).unwrap_or(false) {
							path.insert_str(0, "./");
						}
						let tail = *g.rng.pick(&["", "", "?q", "#f", "?some-long-enough-query-string&other=value#frag", "?a:b"]);
						format!("{}{}{}", prefix, path, tail)
					}
				} else if kind.is_path() {
					if g.rng.chance(1, 10) {
						g.rng.pick(CURATED_PATHS).to_string()
					} else {
						g.path(PathCtx::Standalone)
					}
				} else if kind.is_ref() && prop == Prop::C04 && g.rng.chance(1, 12) {
					g.rng.pick(RESOLVE_REFS).to_string()
				} else if g.rng.chance(1, 10) {
					// curated shapes around the disambiguation rules: a scheme / authority prefix
					// (or none), a path that is or contains a shield, a query or fragment that
					// contains the delimiters the scanners look for
					let prefix = if kind.needs_scheme() { *g.rng.pick(&["s:", "s://h", "s://", "s://h:", "s://u@[::1]:8"]) } else { *g.rng.pick(&["", "", "", "s:", "//h", "//", "//h:", "s://h", "s://h:"]) };
					let has_auth = prefix.contains("//");
					let bare = prefix.is_empty();
					let mut path = g.rng.pick(CURATED_PATHS).to_string();
					if has_auth && !path.is_empty() && !path.starts_with('/') {
						path.insert(0, '/');
					}
					if !has_auth && path.starts_with("//") {
						path.insert_str(0, "/.");
					}
					if bare && path.split('/').next().map(|x| x.contains(':')).unwrap_or(false) {
						path.insert_str(0, "./");
					}
					let tail = *g.rng.pick(&["", "", "?q", "?a:b", "#f", "#x:y", "?a:b#c:d", "?", "#", "?\u{e9}", "?/a/../b", "#/./"]);
					let tail = if kind.is_iri() { tail.to_string() } else { tail.replace('\u{e9}', "%C3%A9") };
					format!("{}{}{}", prefix, path, tail)
				} else {
					let mut t = g.reference(kind.needs_scheme());
					if prop == Prop::C11 && split5(t.as_bytes()).authority.is_none() {
						// C11 needs an authority: splice one in front of an absolute/empty path
						let s = split5(t.as_bytes());
						let sch = s.scheme(t.as_bytes()).map(|x| x.to_vec());
						let q = s.query(t.as_bytes()).map(|x| x.to_vec());
						let f = s.fragment(t.as_bytes()).map(|x| x.to_vec());
						let au = g.authority();
						let pa = g.path(PathCtx::AfterAuthority);
						t = String::from_utf8(compose5(sch.as_deref(), Some(au.as_bytes()), pa.as_bytes(), q.as_deref(), f.as_deref())).unwrap();
					}
					t
				}
			}
		};
		if let Route::ConvertedFrom(src) = route {
			if kind.is_path() || src == kind {
				route = Route::New;
			}
		}
		if (route == Route::Default && !(kind.is_ref() || kind.is_path())) || (route == Route::FromScheme && !kind.needs_scheme()) {
			continue;
		}
		let slack = *g.rng.pick(&[0usize, 0, 0, 1, 7, 64, 1024]);
		let init = Init { kind, route, text, slack };
		// a conversion route may legitimately not apply (IRI text that is not a URI)
		if matches!(guarded(|| Owner::build(&init)), Caught::Ok(Some(_))) {
			return (init, sw);
		}
		if !matches!(init.route, Route::ConvertedFrom(_)) {
			stats.hit("generator_rejected");
		}
	}
	stats.hit("generator_gave_up");
	(
		Init {
			kind,
			route: Route::New,
			text: if kind.needs_scheme() { "s:".into() } else { String::new() },
			slack: 0,
		},
		sw,
	)
}

fn gen_segment_arg(g: &mut Gen, cur_path: &[u8]) -> String {
	// sometimes a segment of the current path (self-referential edit)
	if g.rng.chance(1, 8) {
		let (_, segs) = path_segs(cur_path);
		if !segs.is_empty() {
			if let Ok(s) = String::from_utf8(g.rng.pick(&segs).clone()) {
				return s;
			}
		}
	}
	g.segment()
}

fn gen_path_op(g: &mut Gen, cfg: &RunCfg, cur_path: &[u8]) -> PathOp {
	// long paths are there for the normaliser: call it more often on them
	let w_norm = if cur_path.len() > 256 { 12 } else { 3 };
	match g.rng.weighted(&[10, 6, 2, 5, 4, w_norm, 1]) {
		0 => PathOp::Push(gen_segment_arg(g, cur_path)),
		1 => PathOp::Pop,
		2 => PathOp::Clear,
		3 => PathOp::SymPush(gen_segment_arg(g, cur_path)),
		4 => {
			// mostly a few items; now and then more than any inline buffer would hold
			let n = if g.rng.chance(1, 25) { g.rng.range(5, 40) } else { g.rng.below(5) };
			let items: Vec<String> = (0..n).map(|_| gen_segment_arg(g, cur_path)).collect();
			let mode = if cfg.iter_faults && g.rng.chance(1, 2) {
				let k = g.rng.below(items.len() + 1);
				if cfg.allow_unwind && g.rng.chance(1, 2) {
					IterMode::Unwind(k)
				} else {
					IterMode::Short(k)
				}
			} else {
				IterMode::Normal
			};
			PathOp::SymAppend(items, mode)
		}
		5 => PathOp::Normalize,
		_ => PathOp::Read,
	}
}

/// A different spelling of the same component: one character percent-encoded, or the hex
/// digits of one escape in the other case. Decodes to the same text, is not the same text.
fn respell(g: &mut Gen, s: &str) -> Option<String> {
	if s.is_empty() || s.starts_with('[') {
		return None;
	}
	let cs: Vec<char> = s.chars().collect();
	if let Some(i) = cs.iter().position(|c| *c == '%') {
		if i + 2 < cs.len() && g.rng.chance(1, 2) {
			let mut o = cs.clone();
			for k in [i + 1, i + 2] {
				o[k] = if o[k].is_ascii_lowercase() { o[k].to_ascii_uppercase() } else { o[k].to_ascii_lowercase() };
			}
			let r: String = o.into_iter().collect();
			if r != s {
				return Some(r);
			}
		}
	}
	let idx: Vec<usize> = (0..cs.len()).filter(|i| cs[*i].is_ascii_alphanumeric() || !cs[*i].is_ascii()).filter(|i| !(*i >= 1 && cs[*i - 1] == '%') && !(*i >= 2 && cs[*i - 2] == '%')).collect();
	if idx.is_empty() {
		return None;
	}
	let i = *g.rng.pick(&idx);
	let upper = g.rng.chance(1, 2);
	let mut r = String::new();
	for (k, c) in cs.iter().enumerate() {
		if k == i {
			let mut b = [0u8; 4];
			for byte in c.encode_utf8(&mut b).bytes() {
				r.push_str(&if upper { format!("%{:02X}", byte) } else { format!("%{:02x}", byte) });
			}
		} else {
			r.push(*c);
		}
	}
	Some(r)
}

fn gen_auth_op(g: &mut Gen, cur_auth: &[u8]) -> AuthOp {
	let p = split3(cur_auth);
	// now and then: the current user info or host again, spelled differently
	if g.rng.chance(1, 12) {
		if g.rng.chance(1, 2) {
			if let Some(h) = std::str::from_utf8(&cur_auth[p.host.clone()]).ok().and_then(|h| respell(g, h)) {
				return AuthOp::SetHost(h);
			}
		} else if let Some(r) = &p.userinfo {
			if let Some(u) = std::str::from_utf8(&cur_auth[r.clone()]).ok().and_then(|u| respell(g, u)) {
				return AuthOp::SetUserinfo(Some(u));
			}
		}
	}
	match g.rng.weighted(&[5, 5, 5, 1]) {
		0 => {
			if g.rng.chance(1, 4) {
				AuthOp::SetUserinfo(None)
			} else {
				AuthOp::SetUserinfo(Some(g.userinfo()))
			}
		}
		1 => {
			// sometimes the current host again (same length)
			if g.rng.chance(1, 10) {
				if let Ok(h) = String::from_utf8(cur_auth[p.host.clone()].to_vec()) {
					return AuthOp::SetHost(h);
				}
			}
			AuthOp::SetHost(g.host())
		}
		2 => {
			if g.rng.chance(1, 4) {
				AuthOp::SetPort(None)
			} else {
				AuthOp::SetPort(Some(g.port()))
			}
		}
		_ => AuthOp::Read,
	}
}

fn gen_life(rng: &mut Rng, cfg: &RunCfg) -> Life {
	match rng.weighted(&cfg.w_life) {
		0 => Life::Keep,
		1 => Life::Reopen,
		_ => Life::Leak,
	}
}

/// Draws the next step given the current (durable) state.
pub fn gen_step(rng: &mut Rng, cfg: &RunCfg, prop: Prop, kind: Kind, cur: &[u8]) -> Step {
	let sw = cfg.sw.clone();
	let sw = Swarm { iri: kind.is_iri(), w_multibyte: if kind.is_iri() { sw.w_multibyte } else { 0 }, ..sw };
	let mut g = Gen { rng, sw: &sw };
	let s5 = split_for(kind, cur);
	let cur_path = s5.path(cur).to_vec();
	let cur_auth = s5.authority(cur).map(|a| a.to_vec());
	let mut w = cfg.w_step;
	if kind.is_path() {
		w[0] = 0;
		w[1] = 0;
		w[2] = 0;
		w[4] = 0;
	} else {
		w[5] = 0;
		if !kind.is_ref() {
			w[1] = 0;
		}
		if cur_auth.is_none() {
			w[4] = 0;
			if prop == Prop::C11 {
				// bring an authority back so that the run can go on
				return Step::Set(Comp::Authority, Some(g.authority()));
			}
		}
	}
	if !cfg.owner_events {
		w[6] = 0;
		w[7] = 0;
	}
	if w.iter().all(|x| *x == 0) {
		w[3] = 1;
	}
	match g.rng.weighted(&w) {
		0 => {
			let comp = *g.rng.pick(&[Comp::Scheme, Comp::Scheme, Comp::Authority, Comp::Authority, Comp::Path, Comp::Path, Comp::Path, Comp::Query, Comp::Fragment]);
			let remove = g.rng.chance(1, if comp == Comp::Scheme { 2 } else { 4 });
			match comp {
				Comp::Scheme => {
					if remove && !kind.needs_scheme() {
						Step::Set(comp, None)
					} else {
						Step::Set(comp, Some(g.scheme()))
					}
				}
				Comp::Authority => {
					if remove {
						Step::Set(comp, None)
					} else if g.rng.chance(1, 8) && cur_auth.is_some() {
						Step::Set(comp, String::from_utf8(cur_auth.clone().unwrap()).ok())
					} else {
						Step::Set(comp, Some(g.authority()))
					}
				}
				Comp::Path => {
					// any stand-alone path is a legal argument; the setter must disambiguate
					let p = if g.rng.chance(1, 8) { String::from_utf8(cur_path.clone()).unwrap_or_default() } else { g.path(PathCtx::Standalone) };
					Step::Set(comp, Some(p))
				}
				Comp::Query => Step::Set(comp, if remove { None } else { Some(g.query()) }),
				Comp::Fragment => Step::Set(comp, if remove { None } else { Some(g.fragment()) }),
			}
		}
		1 => {
			let base = if g.rng.chance(1, 4) {
				g.rng.pick(RESOLVE_BASES).to_string()
			} else if g.rng.chance(1, 6) && s5.scheme.is_some() {
				// own text as the base (self-referential), fragment and all
				String::from_utf8(cur.to_vec()).unwrap_or_else(|_| "s:".into())
			} else {
				g.reference(true)
			};
			Step::Resolve { base, by_value: g.rng.chance(1, 3) }
		}
		2 => Step::Convert(*g.rng.pick(&Kind::ALL[..4])),
		3 => {
			let n = g.rng.range(1, cfg.max_burst.max(1));
			let ops = (0..n)
				.map(|_| {
					let life = gen_life(g.rng, cfg);
					BOp { life, op: gen_path_op(&mut g, cfg, &cur_path) }
				})
				.collect();
			Step::PathBurst(ops)
		}
		4 => {
			let n = g.rng.range(1, cfg.max_burst.max(1));
			let au = cur_auth.unwrap_or_default();
			let ops = (0..n)
				.map(|_| {
					let life = gen_life(g.rng, cfg);
					BOp { life, op: gen_auth_op(&mut g, &au) }
				})
				.collect();
			Step::AuthBurst(ops)
		}
		5 => Step::Direct(gen_path_op(&mut g, cfg, &cur_path)),
		6 => Step::Roundtrip,
		_ => Step::CloneTwin,
	}
}

pub struct RunResult {
	/// the buffer text at the end of the run (part of the per-run digest)
	pub final_text: Vec<u8>,
	pub trace: Trace,
	pub violation: Option<Violation>,
	pub nontrivial: bool,
	pub steps: usize,
}

/// One simulated run: everything is a function of `run_seed`.
pub fn run_one(prop: Prop, run_seed: u64, thorough: bool, stats: &mut Stats) -> RunResult {
	run_one_observed(prop, run_seed, thorough, stats, &mut |_| {})
}

/// Same run; `before_step` sees the concrete trace (including the step about to be executed)
/// before every step. Used to recover the history of a run that never returns.
pub fn run_one_observed(prop: Prop, run_seed: u64, thorough: bool, stats: &mut Stats, before_step: &mut dyn FnMut(&Trace)) -> RunResult {
	let mut rng = Rng::new(run_seed);
	let (init, _sw0) = gen_init(&mut rng, prop, stats);
	let cfg = draw_cfg(&mut rng, prop, thorough, init.kind);
	let mut trace = Trace { init: init.clone(), steps: Vec::new() };
	let mut ex = match Exec::start(prop, &init, stats) {
		Some(e) => e,
		None => {
			stats.hit("runs_discarded_at_start");
			return RunResult { final_text: Vec::new(), trace, violation: None, nontrivial: false, steps: 0 };
		}
	};
	stats.hit(match init.route {
		Route::New => "route_new",
		Route::FromStr => "route_from_str",
		Route::TryFrom => "route_try_from",
		Route::FromVec => "route_from_vec",
		Route::Default => "route_default",
		Route::FromScheme => "route_from_scheme",
		Route::ConvertedFrom(_) => "route_converted",
		Route::ToOwned => "route_to_owned",
	});
	if init.slack > 0 {
		stats.hit("fault_spare_capacity");
	}
	let n = rng.range(1, cfg.max_steps);
	let mut violation = None;
	let mut steps = 0;
	for _ in 0..n {
		let st = gen_step(&mut rng, &cfg, prop, ex.kind(), ex.text());
		trace.steps.push(st.clone());
		before_step(&trace);
		match ex.step(&st, stats) {
			Outcome::Ok => steps += 1,
			Outcome::Invalid => {
				stats.hit("generated_step_not_applicable");
				trace.steps.pop();
			}
			Outcome::Abandon => {
				stats.hit("runs_abandoned_on_unarmed_failure");
				break;
			}
			Outcome::Violation(v) => {
				violation = Some(*v);
				break;
			}
		}
	}
	let nontrivial = match prop {
		Prop::C04 => ex.mutated,
		_ => ex.nontrivial,
	};
	RunResult { final_text: ex.text().to_vec(), trace, violation, nontrivial, steps }
}

/// Re-executes a concrete trace. `Err(())`: the trace is not executable.
pub fn replay_trace(prop: Prop, trace: &Trace) -> Result<Option<Violation>, ()> {
	let mut stats = Stats::default();
	let mut ex = Exec::start(prop, &trace.init, &mut stats).ok_or(())?;
	for st in &trace.steps {
		match ex.step(st, &mut stats) {
			Outcome::Ok => {}
			Outcome::Invalid => return Err(()),
			Outcome::Abandon => return Ok(None),
			Outcome::Violation(v) => return Ok(Some(*v)),
		}
	}
	Ok(None)
}
