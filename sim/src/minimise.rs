//! Deterministic greedy minimisation of a failing trace.

use crate::bufsim::{replay_trace, Prop};
use crate::trace::*;

fn simpler_strings(s: &str) -> Vec<String> {
	let mut out = Vec::new();
	if !s.is_empty() {
		out.push(String::new());
		if s != "a" {
			out.push("a".to_string());
		}
		let cs: Vec<char> = s.chars().collect();
		if cs.len() > 1 {
			out.push(cs[..cs.len() / 2].iter().collect());
			out.push(cs[cs.len() / 2..].iter().collect());
			out.push(cs[..cs.len() - 1].iter().collect());
			out.push(cs[1..].iter().collect());
		}
		if !s.is_ascii() {
			out.push(s.chars().map(|c| if c.is_ascii() { c } else { 'x' }).collect());
		}
	}
	out.retain(|x| x != s);
	out.dedup();
	out
}

fn simpler_opt(v: &Option<String>) -> Vec<Option<String>> {
	match v {
		None => vec![],
		Some(s) => {
			let mut out: Vec<Option<String>> = vec![None];
			out.extend(simpler_strings(s).into_iter().map(Some));
			out
		}
	}
}

fn simpler_path_op(op: &PathOp) -> Vec<PathOp> {
	match op {
		PathOp::Push(s) => simpler_strings(s).into_iter().map(PathOp::Push).collect(),
		PathOp::SymPush(s) => {
			let mut v: Vec<PathOp> = vec![PathOp::Push(s.clone())];
			v.extend(simpler_strings(s).into_iter().map(PathOp::SymPush));
			v
		}
		PathOp::SymAppend(items, mode) => {
			let mut v = Vec::new();
			if *mode != IterMode::Normal {
				v.push(PathOp::SymAppend(items.clone(), IterMode::Normal));
			}
			if items.len() == 1 && *mode == IterMode::Normal {
				v.push(PathOp::SymPush(items[0].clone()));
			}
			for i in 0..items.len() {
				let mut it = items.clone();
				it.remove(i);
				let m = match mode {
					IterMode::Unwind(k) => IterMode::Unwind((*k).min(it.len())),
					IterMode::Short(k) => IterMode::Short((*k).min(it.len())),
					m => *m,
				};
				v.push(PathOp::SymAppend(it, m));
			}
			for i in 0..items.len() {
				for s in simpler_strings(&items[i]) {
					let mut it = items.clone();
					it[i] = s;
					v.push(PathOp::SymAppend(it, *mode));
				}
			}
			v
		}
		_ => vec![],
	}
}

fn simpler_auth_op(op: &AuthOp) -> Vec<AuthOp> {
	match op {
		AuthOp::SetUserinfo(v) => simpler_opt(v).into_iter().map(AuthOp::SetUserinfo).collect(),
		AuthOp::SetHost(s) => simpler_strings(s).into_iter().map(AuthOp::SetHost).collect(),
		AuthOp::SetPort(v) => {
			let mut out: Vec<AuthOp> = simpler_opt(v).into_iter().map(AuthOp::SetPort).collect();
			if let Some(p) = v {
				if p != "1" && !p.is_empty() {
					out.push(AuthOp::SetPort(Some("1".into())));
				}
			}
			out
		}
		AuthOp::Read => vec![],
	}
}

/// Candidate simplifications of the initial text: drop characters / segments.
fn simpler_init_texts(s: &str) -> Vec<String> {
	let mut out = Vec::new();
	let cs: Vec<char> = s.chars().collect();
	// drop whole '/'-separated pieces, then halves, then single characters
	let parts: Vec<&str> = s.split('/').collect();
	if parts.len() > 1 {
		for i in 0..parts.len() {
			let mut p = parts.clone();
			p.remove(i);
			out.push(p.join("/"));
		}
	}
	for d in ['?', '#'] {
		if let Some(i) = s.find(d) {
			out.push(s[..i].to_string());
		}
	}
	if cs.len() > 1 {
		out.push(cs[..cs.len() / 2].iter().collect());
		out.push(cs[cs.len() / 2..].iter().collect());
	}
	if cs.len() <= 40 {
		for i in 0..cs.len() {
			let mut c = cs.clone();
			c.remove(i);
			out.push(c.into_iter().collect());
		}
		for i in 0..cs.len() {
			if !cs[i].is_ascii() {
				let mut c = cs.clone();
				c[i] = 'x';
				out.push(c.into_iter().collect());
			}
		}
	}
	out.retain(|x| x != s);
	out
}

pub struct Minimised {
	pub trace: Trace,
	pub violation: Violation,
	pub attempts: usize,
}

/// `keep(v)`: does the candidate's violation count as "the same failure"?
pub fn minimise(prop: Prop, trace: &Trace, orig: &Violation, extra_keep: &dyn Fn(&Violation) -> bool) -> Minimised {
	let same = |v: &Violation| v.property == orig.property && v.oracle == orig.oracle && v.op == orig.op && extra_keep(v);
	let mut best = trace.clone();
	let mut best_v = orig.clone();
	let mut attempts = 0usize;
	const MAX_ATTEMPTS: usize = 6000;

	// truncate after the failing step first
	if best_v.step + 1 < best.steps.len() {
		best.steps.truncate(best_v.step + 1);
	}

	let try_cand = |cand: Trace, best: &mut Trace, best_v: &mut Violation, attempts: &mut usize| -> bool {
		if *attempts >= MAX_ATTEMPTS {
			return false;
		}
		*attempts += 1;
		if let Ok(Some(v)) = replay_trace(prop, &cand) {
			if same(&v) {
				*best = cand;
				if v.step + 1 < best.steps.len() {
					best.steps.truncate(v.step + 1);
				}
				*best_v = v;
				return true;
			}
		}
		false
	};

	loop {
		let mut progress = false;
		// 1. drop whole steps
		let mut i = 0;
		while i < best.steps.len() {
			let mut c = best.clone();
			c.steps.remove(i);
			if try_cand(c, &mut best, &mut best_v, &mut attempts) {
				progress = true;
			} else {
				i += 1;
			}
		}
		// 2. shrink bursts: drop ops, simplify lifecycles and arguments
		for si in 0..best.steps.len() {
			if si >= best.steps.len() {
				break; // an accepted candidate truncated the trace
			}
			match best.steps[si].clone() {
				Step::PathBurst(ops) => {
					let mut ops = ops;
					let mut j = 0;
					while j < ops.len() && ops.len() > 1 {
						let mut o2 = ops.clone();
						o2.remove(j);
						let mut c = best.clone();
						c.steps[si] = Step::PathBurst(o2.clone());
						if try_cand(c, &mut best, &mut best_v, &mut attempts) {
							progress = true;
							if si >= best.steps.len() {
								break;
							}
							if let Step::PathBurst(o) = &best.steps[si] {
								ops = o.clone();
							} else {
								break;
							}
						} else {
							j += 1;
						}
					}
					if si >= best.steps.len() {
						continue;
					}
					for j in 0..ops.len() {
						if ops[j].life != Life::Keep {
							let mut o2 = ops.clone();
							o2[j].life = Life::Keep;
							let mut c = best.clone();
							c.steps[si] = Step::PathBurst(o2.clone());
							if try_cand(c, &mut best, &mut best_v, &mut attempts) {
								progress = true;
								ops = o2;
							}
						}
						let mut again = true;
						while again {
							again = false;
							for alt in simpler_path_op(&ops[j].op) {
								let mut o2 = ops.clone();
								o2[j].op = alt;
								let mut c = best.clone();
								if si >= c.steps.len() {
									break;
								}
								c.steps[si] = Step::PathBurst(o2.clone());
								if try_cand(c, &mut best, &mut best_v, &mut attempts) {
									progress = true;
									ops = o2;
									again = true;
									break;
								}
							}
						}
					}
				}
				Step::AuthBurst(ops) => {
					let mut ops = ops;
					let mut j = 0;
					while j < ops.len() && ops.len() > 1 {
						let mut o2 = ops.clone();
						o2.remove(j);
						let mut c = best.clone();
						c.steps[si] = Step::AuthBurst(o2.clone());
						if try_cand(c, &mut best, &mut best_v, &mut attempts) {
							progress = true;
							if si >= best.steps.len() {
								break;
							}
							if let Step::AuthBurst(o) = &best.steps[si] {
								ops = o.clone();
							} else {
								break;
							}
						} else {
							j += 1;
						}
					}
					if si >= best.steps.len() {
						continue;
					}
					for j in 0..ops.len() {
						if ops[j].life != Life::Keep {
							let mut o2 = ops.clone();
							o2[j].life = Life::Keep;
							let mut c = best.clone();
							c.steps[si] = Step::AuthBurst(o2.clone());
							if try_cand(c, &mut best, &mut best_v, &mut attempts) {
								progress = true;
								ops = o2;
							}
						}
						let mut again = true;
						while again {
							again = false;
							for alt in simpler_auth_op(&ops[j].op) {
								let mut o2 = ops.clone();
								o2[j].op = alt;
								let mut c = best.clone();
								if si >= c.steps.len() {
									break;
								}
								c.steps[si] = Step::AuthBurst(o2.clone());
								if try_cand(c, &mut best, &mut best_v, &mut attempts) {
									progress = true;
									ops = o2;
									again = true;
									break;
								}
							}
						}
					}
				}
				Step::Set(comp, val) => {
					for alt in simpler_opt(&val) {
						let mut c = best.clone();
						if si >= c.steps.len() {
							break;
						}
						c.steps[si] = Step::Set(comp, alt);
						if try_cand(c, &mut best, &mut best_v, &mut attempts) {
							progress = true;
							break;
						}
					}
				}
				Step::Resolve { base, by_value } => {
					let mut alts: Vec<Step> = Vec::new();
					if by_value {
						alts.push(Step::Resolve { base: base.clone(), by_value: false });
					}
					for t in simpler_init_texts(&base) {
						alts.push(Step::Resolve { base: t, by_value });
					}
					for alt in alts {
						let mut c = best.clone();
						if si >= c.steps.len() {
							break;
						}
						c.steps[si] = alt;
						if try_cand(c, &mut best, &mut best_v, &mut attempts) {
							progress = true;
							break;
						}
					}
				}
				Step::Direct(op) => {
					for alt in simpler_path_op(&op) {
						let mut c = best.clone();
						if si >= c.steps.len() {
							break;
						}
						c.steps[si] = Step::Direct(alt);
						if try_cand(c, &mut best, &mut best_v, &mut attempts) {
							progress = true;
							break;
						}
					}
				}
				_ => {}
			}
		}
		// 3. initial state: plain route, no slack, URI family when ASCII, simpler text
		if best.init.slack != 0 {
			let mut c = best.clone();
			c.init.slack = 0;
			if try_cand(c, &mut best, &mut best_v, &mut attempts) {
				progress = true;
			}
		}
		if best.init.route != Route::New {
			let mut c = best.clone();
			c.init.route = Route::New;
			if try_cand(c, &mut best, &mut best_v, &mut attempts) {
				progress = true;
			}
		}
		for t in simpler_init_texts(&best.init.text.clone()) {
			let mut c = best.clone();
			c.init.text = t;
			if try_cand(c, &mut best, &mut best_v, &mut attempts) {
				progress = true;
				break;
			}
		}
		if !progress || attempts >= MAX_ATTEMPTS {
			break;
		}
	}
	Minimised { trace: best, violation: best_v, attempts }
}
