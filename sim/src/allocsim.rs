//! Engine `allocsim` (C20): the harness owns the global allocator seam. Inside
//! a *window* raised around exactly one library call every allocation request
//! is a recorded fault (count mode) or is refused (deny mode).

use std::alloc::{GlobalAlloc, Layout, System};
use std::cell::Cell;
use std::collections::BTreeMap;

use iref_core::{iri, uri, Iri, IriRef, Uri, UriRef};

use crate::exec::{guarded, Caught};
use crate::gen::{Gen, PathCtx, Swarm};
use crate::rng::Rng;
use crate::trace::*;

pub struct SimAlloc;

thread_local! {
	static WINDOW: Cell<bool> = const { Cell::new(false) };
	static DENY: Cell<bool> = const { Cell::new(false) };
	static REQUESTS: Cell<u64> = const { Cell::new(0) };
	static FIRST_SIZE: Cell<usize> = const { Cell::new(0) };
}

#[inline]
fn on_request(size: usize) -> bool {
	// returns true if the request must be refused
	let inw = WINDOW.try_with(|w| w.get()).unwrap_or(false);
	if inw {
		let n = REQUESTS.with(|r| {
			let n = r.get();
			r.set(n + 1);
			n
		});
		if n == 0 {
			FIRST_SIZE.with(|f| f.set(size));
		}
		return DENY.with(|d| d.get());
	}
	false
}

unsafe impl GlobalAlloc for SimAlloc {
	unsafe fn alloc(&self, l: Layout) -> *mut u8 {
		if on_request(l.size()) {
			return std::ptr::null_mut();
		}
		System.alloc(l)
	}
	unsafe fn alloc_zeroed(&self, l: Layout) -> *mut u8 {
		if on_request(l.size()) {
			return std::ptr::null_mut();
		}
		System.alloc_zeroed(l)
	}
	unsafe fn realloc(&self, p: *mut u8, l: Layout, n: usize) -> *mut u8 {
		if on_request(n) {
			return std::ptr::null_mut();
		}
		System.realloc(p, l, n)
	}
	unsafe fn dealloc(&self, p: *mut u8, l: Layout) {
		System.dealloc(p, l)
	}
}

pub fn set_deny(d: bool) {
	DENY.with(|x| x.set(d));
}

/// Runs `f` inside an allocator window; returns its result and the number of
/// allocation requests made while it ran (and the size of the first).
pub fn window<T>(f: impl FnOnce() -> T) -> (T, u64, usize) {
	REQUESTS.with(|r| r.set(0));
	FIRST_SIZE.with(|r| r.set(0));
	WINDOW.with(|w| w.set(true));
	let r = f();
	WINDOW.with(|w| w.set(false));
	(r, REQUESTS.with(|r| r.get()), FIRST_SIZE.with(|r| r.get()))
}

#[derive(Default, Clone)]
pub struct AllocStats {
	pub c: BTreeMap<&'static str, u64>,
	pub per_type: BTreeMap<String, u64>,
	pub windows: u64,
}

impl AllocStats {
	pub fn hit(&mut self, k: &'static str) {
		*self.c.entry(k).or_insert(0) += 1;
	}
	pub fn merge(&mut self, o: &AllocStats) {
		for (k, v) in &o.c {
			*self.c.entry(k).or_insert(0) += v;
		}
		for (k, v) in &o.per_type {
			*self.per_type.entry(k.clone()).or_insert(0) += v;
		}
		self.windows += o.windows;
	}
}

pub const TYPES: &[&str] = &[
	"Uri", "UriRef", "Iri", "IriRef",
	"uri::Scheme", "uri::Authority", "uri::UserInfo", "uri::Host", "uri::Port", "uri::Path", "uri::Segment", "uri::Query", "uri::Fragment",
	"iri::Authority", "iri::UserInfo", "iri::Host", "iri::Path", "iri::Segment", "iri::Query", "iri::Fragment",
];

fn fail(oracle: &str, ty: &str, accessor: &str, message: String, text: &[u8]) -> Violation {
	Violation {
		property: "C20".into(),
		oracle: oracle.into(),
		step: 0,
		op_index: None,
		op: format!("{}::{}", ty, accessor),
		message,
		pre: Some(Txt(text.to_vec())),
		expected: None,
		observed: None,
		signature: Some(Signature {
			oracle: oracle.into(),
			op: format!("{}::{}", ty, accessor),
			pre: String::new(),
			arg: String::new(),
		}),
	}
}

/// A returned slice as (address, length); no address ever enters a log, only
/// differences to the input's base address.
type Sl = (usize, usize);

fn sl(b: &[u8]) -> Sl {
	(b.as_ptr() as usize, b.len())
}

struct Ctx<'a> {
	ty: &'a str,
	text: &'a [u8],
	stats: &'a mut AllocStats,
	/// stop at this accessor only (replay), or run all
	only: Option<&'a str>,
}

impl<'a> Ctx<'a> {
	/// One accessor call in a window. `ordered` is set only for the five components of a
	/// URI/IRI (reference), the one place where C20 states an order ("lying inside it in that
	/// order and without overlap"); which sub-slice an authority part or a segment is, is C03/C12. `f` returns up to 8 slices (as address
	/// pairs, on the stack - the harness itself must not allocate in here).
	fn acc(&mut self, name: &str, consts: &[&[u8]], ordered: bool, f: impl FnOnce() -> ([Option<Sl>; 8], usize)) -> Result<(), Violation> {
		if let Some(o) = self.only {
			if o != name {
				return Ok(());
			}
		}
		self.stats.windows += 1;
		let r = guarded(|| window(f));
		let ((slices, _n), reqs, first) = match r {
			Caught::Ok(x) => x,
			Caught::Panic(_) => {
				// C20 says nothing about panics; the accessor cannot be judged on this input. Counted,
				// reported as a note, and a batch with too many of them is not allowed to say "held".
				WINDOW.with(|w| w.set(false));
				self.stats.hit("accessor_panicked");
				return Ok(());
			}
			Caught::Injected => unreachable!(),
		};
		if reqs != 0 {
			return Err(fail("allocation_in_window", self.ty, name, format!("{} allocation request(s) during {}::{} (first: {} bytes)", reqs, self.ty, name, first), self.text));
		}
		let base = self.text.as_ptr() as usize;
		let end = base + self.text.len();
		let mut prev_end = base;
		for s in slices.iter().flatten() {
			let (p, l) = *s;
			let inside = p >= base && p + l <= end;
			if !inside {
				// No allocation happened in this window (checked above), so a slice that is not
				// inside the input can only point at static data: "a fixed constant such as the
				// root path". The property does not say which constants exist or which accessor
				// may return which, so a short one is accepted from any accessor and counted; a
				// long one cannot be a constant of a URI library and is taken for a copy parked
				// in some static buffer.
				if l > MAX_CONSTANT_LEN {
					return Err(fail("slice_outside_input", self.ty, name, format!("{}::{} returned a {}-byte slice that is neither inside the input nor plausibly a fixed constant", self.ty, name, l), self.text));
				}
				let _ = consts;
				self.stats.hit("constant_slices_returned");
				continue;
			}
			if ordered {
				if p < prev_end {
					return Err(fail("component_order", self.ty, name, format!("{}::{}: components overlap or are out of order (offset {} < {})", self.ty, name, p - base, prev_end - base), self.text));
				}
				prev_end = p + l;
			}
		}
		Ok(())
	}
}

/// Longest slice outside the input that is still taken for a fixed constant (the library's own
/// are `""`, `/`, `/./`, `.`, `..`).
const MAX_CONSTANT_LEN: usize = 4;

fn none8() -> [Option<Sl>; 8] {
	[None; 8]
}

macro_rules! ri_accessors {
	($cx:expr, $v:expr, $is_ref:expr) => {{
		let v = $v;
		let cx: &mut Ctx = $cx;
		cx.acc("scheme", &[], false, || {
			let mut o = none8();
			#[allow(clippy::useless_conversion)]
			{
				o[0] = Option::from(v.scheme()).map(|s: &uri::Scheme| sl(s.as_bytes()));
			}
			(o, 1)
		})?;
		cx.acc("authority", &[], false, || {
			let mut o = none8();
			o[0] = v.authority().map(|s| sl(s.as_bytes()));
			(o, 1)
		})?;
		cx.acc("path", &[b"", b"/"], false, || {
			let mut o = none8();
			o[0] = Some(sl(v.path().as_bytes()));
			(o, 1)
		})?;
		cx.acc("query", &[], false, || {
			let mut o = none8();
			o[0] = v.query().map(|s| sl(s.as_bytes()));
			(o, 1)
		})?;
		cx.acc("fragment", &[], false, || {
			let mut o = none8();
			o[0] = v.fragment().map(|s| sl(s.as_bytes()));
			(o, 1)
		})?;
		cx.acc("parts", &[], true, || {
			let mut o = none8();
			let p = v.parts();
			#[allow(clippy::useless_conversion)]
			{
				o[0] = Option::from(p.scheme).map(|s: &uri::Scheme| sl(s.as_bytes()));
			}
			o[1] = p.authority.map(|s| sl(s.as_bytes()));
			o[2] = Some(sl(p.path.as_bytes()));
			o[3] = p.query.map(|s| sl(s.as_bytes()));
			o[4] = p.fragment.map(|s| sl(s.as_bytes()));
			(o, 5)
		})?;
		cx.acc("accessors_in_order", &[b"", b"/"], true, || {
			let mut o = none8();
			#[allow(clippy::useless_conversion)]
			{
				o[0] = Option::from(v.scheme()).map(|s: &uri::Scheme| sl(s.as_bytes()));
			}
			o[1] = v.authority().map(|s| sl(s.as_bytes()));
			o[2] = Some(sl(v.path().as_bytes()));
			o[3] = v.query().map(|s| sl(s.as_bytes()));
			o[4] = v.fragment().map(|s| sl(s.as_bytes()));
			(o, 5)
		})?;
		cx.acc("base", &[], false, || {
			let mut o = none8();
			o[0] = Some(sl(v.base().as_bytes()));
			(o, 1)
		})?;
		// authority and path sub-accessors through the value
		cx.acc("authority.parts", &[], false, || {
			let mut o = none8();
			if let Some(a) = v.authority() {
				let p = a.parts();
				o[0] = p.user_info.map(|s| sl(s.as_bytes()));
				o[1] = Some(sl(p.host.as_bytes()));
				o[2] = p.port.map(|s| sl(s.as_bytes()));
			}
			(o, 3)
		})?;
		cx.acc("path.segments", &[], false, || {
			let mut o = none8();
			for (i, s) in v.path().segments().enumerate() {
				if i < 8 {
					o[i] = Some(sl(s.as_bytes()));
				}
			}
			(o, 8)
		})?;
	}};
}

macro_rules! authority_accessors {
	($cx:expr, $a:expr) => {{
		let a = $a;
		let cx: &mut Ctx = $cx;
		cx.acc("user_info", &[], false, || {
			let mut o = none8();
			o[0] = a.user_info().map(|s| sl(s.as_bytes()));
			(o, 1)
		})?;
		cx.acc("host", &[], false, || {
			let mut o = none8();
			o[0] = Some(sl(a.host().as_bytes()));
			(o, 1)
		})?;
		cx.acc("port", &[], false, || {
			let mut o = none8();
			o[0] = a.port().map(|s| sl(s.as_bytes()));
			(o, 1)
		})?;
		cx.acc("parts", &[], false, || {
			let mut o = none8();
			let p = a.parts();
			o[0] = p.user_info.map(|s| sl(s.as_bytes()));
			o[1] = Some(sl(p.host.as_bytes()));
			o[2] = p.port.map(|s| sl(s.as_bytes()));
			(o, 3)
		})?;
	}};
}

macro_rules! path_accessors {
	($cx:expr, $p:expr) => {{
		let p = $p;
		let cx: &mut Ctx = $cx;
		let mut counted = usize::MAX;
		cx.acc("segments", &[], false, || {
			let mut o = none8();
			let mut n = 0usize;
			for s in p.segments() {
				if n < 8 {
					o[n] = Some(sl(s.as_bytes()));
				}
				n += 1;
			}
			counted = n;
			(o, n)
		})?;
		if counted != usize::MAX {
			// on inputs far larger than any inline buffer the count is compared with an
			// independent '/' count (outside the window)
			let b = p.as_bytes();
			let body = if b.first() == Some(&b'/') { &b[1..] } else { b };
			let want = if body.is_empty() { 0 } else { 1 + body.iter().filter(|c| **c == b'/').count() };
			if counted != want {
				return Err(fail("segment_count_on_large_input", cx.ty, "segments", format!("segments() yielded {} items, the text has {}", counted, want), cx.text));
			}
		}
		cx.acc("into_iter", &[], false, || {
			let mut o = none8();
			let mut n = 0usize;
			for s in p {
				if n < 8 {
					o[n] = Some(sl(s.as_bytes()));
				}
				n += 1;
			}
			(o, n)
		})?;
		cx.acc("segments.rev", &[], false, || {
			let mut o = none8();
			let mut n = 0usize;
			for s in p.segments().rev() {
				if n < 8 {
					o[n] = Some(sl(s.as_bytes()));
				}
				n += 1;
			}
			(o, n)
		})?;
		cx.acc("segments.interleaved", &[], false, || {
			let mut o = none8();
			let mut it = p.segments();
			let mut n = 0usize;
			loop {
				let a = it.next();
				let b = it.next_back();
				if a.is_none() && b.is_none() {
					break;
				}
				if n < 8 {
					o[n] = a.or(b).map(|s| sl(s.as_bytes()));
				}
				n += 1;
			}
			(o, n)
		})?;
		cx.acc("first", &[], false, || {
			let mut o = none8();
			o[0] = p.first().map(|s| sl(s.as_bytes()));
			(o, 1)
		})?;
		cx.acc("last", &[], false, || {
			let mut o = none8();
			o[0] = p.last().map(|s| sl(s.as_bytes()));
			(o, 1)
		})?;
		cx.acc("file_name", &[], false, || {
			let mut o = none8();
			o[0] = p.file_name().map(|s| sl(s.as_bytes()));
			(o, 1)
		})?;
		cx.acc("directory", &[b""], false, || {
			let mut o = none8();
			o[0] = Some(sl(p.directory().as_bytes()));
			(o, 1)
		})?;
		cx.acc("parent", &[b"/", b"/./", b""], false, || {
			let mut o = none8();
			o[0] = p.parent().map(|s| sl(s.as_bytes()));
			(o, 1)
		})?;
		cx.acc("parent_or_empty", &[b"/", b"/./", b""], false, || {
			let mut o = none8();
			o[0] = Some(sl(p.parent_or_empty().as_bytes()));
			(o, 1)
		})?;
		cx.acc("queries", &[], false, || {
			let o = none8();
			let n = p.segment_count() + p.is_empty() as usize + p.is_absolute() as usize + p.is_relative() as usize;
			(o, n)
		})?;
	}};
}

/// Parses `text` as `ty` inside a window (valid or not) and, when valid, runs
/// every read accessor inside its own window.
pub fn run_case(case: &AllocCase, stats: &mut AllocStats) -> Result<(), Violation> {
	let ty = case.ty.as_str();
	let text: &[u8] = &case.text.0;
	let only = case.accessor.as_deref();
	*stats.per_type.entry(ty.to_string()).or_insert(0) += 1;
	let st = std::str::from_utf8(text).ok();

	// 1. the constructor itself (and `validate`), on valid and invalid input
	macro_rules! ctor {
		($T:ty, $input:expr, $tokens:expr) => {{
			let input = $input;
			if only.is_none() || only == Some("try_from") {
				stats.windows += 1;
				let (r, reqs, first) = match guarded(|| window(|| <&$T>::try_from(input).ok().map(|v| (v as *const $T as *const u8 as usize, std::mem::size_of_val(v))))) {
					Caught::Ok(x) => x,
					_ => {
						WINDOW.with(|w| w.set(false));
						stats.hit("constructor_panicked");
						return Ok(());
					}
				};
				if reqs != 0 && r.is_some() {
					return Err(fail("allocation_in_window", ty, "try_from", format!("{} allocation request(s) during <&{}>::try_from on valid input (first: {} bytes)", reqs, ty, first), text));
				}
				if let Some(s) = r {
					if s != sl(text) {
						return Err(fail("value_is_not_the_input", ty, "try_from", format!("<&{}>::try_from returned a value that does not occupy exactly the caller's input", ty), text));
					}
				}
			}
			if only.is_none() || only == Some("validate") {
				stats.windows += 1;
				let (valid, reqs, first) = match guarded(|| window(|| <$T>::validate($tokens))) {
					Caught::Ok(x) => x,
					_ => {
						WINDOW.with(|w| w.set(false));
						stats.hit("constructor_panicked");
						return Ok(());
					}
				};
				if reqs != 0 && valid {
					return Err(fail("allocation_in_window", ty, "validate", format!("{} allocation request(s) during {}::validate (first: {} bytes)", reqs, ty, first), text));
				}
			}
			if only.is_none() || only == Some("new") {
				stats.windows += 1;
				// the value itself (a `&T` to an unsized wrapper) must occupy exactly the caller's input
				let g = guarded(|| window(|| <$T>::new(input).ok().map(|v| (v as *const $T as *const u8 as usize, std::mem::size_of_val(v)))));
				match g {
					Caught::Ok((r, reqs, first)) => {
						match r {
							Some(s) => {
								stats.hit("valid_inputs");
								if reqs != 0 {
									return Err(fail("allocation_in_window", ty, "new", format!("{} allocation request(s) during {}::new on valid input (first: {} bytes)", reqs, ty, first), text));
								}
								if s != sl(text) {
									return Err(fail("value_is_not_the_input", ty, "new", format!("{}::new returned a value that does not occupy exactly the caller's input", ty), text));
								}
							}
							None => {
								stats.hit("invalid_inputs");
								// C20 quantifies over valid inputs; what rejection costs is noted, not judged
								if reqs != 0 {
									stats.hit("allocations_while_rejecting_invalid_input");
								}
							}
						}
					}
					Caught::Panic(_) => {
						WINDOW.with(|w| w.set(false));
						stats.hit("constructor_panicked");
						return Ok(());
					}
					Caught::Injected => unreachable!(),
				}
			}
			<$T>::new(input).ok()
		}};
	}

	match ty {
		"Uri" => {
			if let Some(v) = ctor!(Uri, text, text.iter().copied()) {
				let mut cx = Ctx { ty, text, stats, only };
				ri_accessors!(&mut cx, v, false);
				cx.acc("as_refs", &[], false, || {
					let mut o = none8();
					o[0] = Some(sl(v.as_uri_ref().as_bytes()));
					o[1] = Some(sl(v.as_iri().as_bytes()));
					o[2] = Some(sl(v.as_iri_ref().as_bytes()));
					(o, 3)
				})?;
			}
		}
		"UriRef" => {
			if let Some(v) = ctor!(UriRef, text, text.iter().copied()) {
				let mut cx = Ctx { ty, text, stats, only };
				ri_accessors!(&mut cx, v, true);
				cx.acc("as_refs", &[], false, || {
					let mut o = none8();
					o[0] = v.as_uri().map(|x| sl(x.as_bytes()));
					o[1] = v.as_iri().map(|x| sl(x.as_bytes()));
					o[2] = Some(sl(v.as_iri_ref().as_bytes()));
					(o, 3)
				})?;
			}
		}
		"Iri" => {
			if let Some(s) = st {
				if let Some(v) = ctor!(Iri, s, s.chars()) {
					let mut cx = Ctx { ty, text, stats, only };
					ri_accessors!(&mut cx, v, false);
					cx.acc("as_refs", &[], false, || {
						let mut o = none8();
						o[0] = Some(sl(v.as_iri_ref().as_bytes()));
						o[1] = v.as_uri().map(|x| sl(x.as_bytes()));
						o[2] = v.as_uri_ref().map(|x| sl(x.as_bytes()));
						(o, 3)
					})?;
				}
			}
		}
		"IriRef" => {
			if let Some(s) = st {
				if let Some(v) = ctor!(IriRef, s, s.chars()) {
					let mut cx = Ctx { ty, text, stats, only };
					ri_accessors!(&mut cx, v, true);
					cx.acc("as_refs", &[], false, || {
						let mut o = none8();
						o[0] = v.as_iri().map(|x| sl(x.as_bytes()));
						o[1] = v.as_uri().map(|x| sl(x.as_bytes()));
						o[2] = v.as_uri_ref().map(|x| sl(x.as_bytes()));
						(o, 3)
					})?;
				}
			}
		}
		"uri::Scheme" => {
			ctor!(uri::Scheme, text, text.iter().copied());
		}
		"uri::Authority" => {
			if let Some(a) = ctor!(uri::Authority, text, text.iter().copied()) {
				let mut cx = Ctx { ty, text, stats, only };
				authority_accessors!(&mut cx, a);
			}
		}
		"uri::UserInfo" => {
			ctor!(uri::UserInfo, text, text.iter().copied());
		}
		"uri::Host" => {
			ctor!(uri::Host, text, text.iter().copied());
		}
		"uri::Port" => {
			ctor!(uri::Port, text, text.iter().copied());
		}
		"uri::Path" => {
			if let Some(p) = ctor!(uri::Path, text, text.iter().copied()) {
				let mut cx = Ctx { ty, text, stats, only };
				path_accessors!(&mut cx, p);
			}
		}
		"uri::Segment" => {
			ctor!(uri::Segment, text, text.iter().copied());
		}
		"uri::Query" => {
			ctor!(uri::Query, text, text.iter().copied());
		}
		"uri::Fragment" => {
			ctor!(uri::Fragment, text, text.iter().copied());
		}
		"iri::Authority" => {
			if let Some(s) = st {
				if let Some(a) = ctor!(iri::Authority, s, s.chars()) {
					let mut cx = Ctx { ty, text, stats, only };
					authority_accessors!(&mut cx, a);
				}
			}
		}
		"iri::UserInfo" => {
			if let Some(s) = st {
				ctor!(iri::UserInfo, s, s.chars());
			}
		}
		"iri::Host" => {
			if let Some(s) = st {
				ctor!(iri::Host, s, s.chars());
			}
		}
		"iri::Path" => {
			if let Some(s) = st {
				if let Some(p) = ctor!(iri::Path, s, s.chars()) {
					let mut cx = Ctx { ty, text, stats, only };
					path_accessors!(&mut cx, p);
				}
			}
		}
		"iri::Segment" => {
			if let Some(s) = st {
				ctor!(iri::Segment, s, s.chars());
			}
		}
		"iri::Query" => {
			if let Some(s) = st {
				ctor!(iri::Query, s, s.chars());
			}
		}
		"iri::Fragment" => {
			if let Some(s) = st {
				ctor!(iri::Fragment, s, s.chars());
			}
		}
		_ => {}
	}
	Ok(())
}

fn valid_for(ty: &str, b: &[u8]) -> bool {
	let s = match std::str::from_utf8(b) {
		Ok(s) => s,
		Err(_) => return false,
	};
	match ty {
		"Uri" => Uri::new(b).is_ok(),
		"UriRef" => UriRef::new(b).is_ok(),
		"Iri" => Iri::new(s).is_ok(),
		"IriRef" => IriRef::new(s).is_ok(),
		"uri::Scheme" => uri::Scheme::new(b).is_ok(),
		"uri::Authority" => uri::Authority::new(b).is_ok(),
		"uri::UserInfo" => uri::UserInfo::new(b).is_ok(),
		"uri::Host" => uri::Host::new(b).is_ok(),
		"uri::Port" => uri::Port::new(b).is_ok(),
		"uri::Path" => uri::Path::new(b).is_ok(),
		"uri::Segment" => uri::Segment::new(b).is_ok(),
		"uri::Query" => uri::Query::new(b).is_ok(),
		"uri::Fragment" => uri::Fragment::new(b).is_ok(),
		"iri::Authority" => iri::Authority::new(s).is_ok(),
		"iri::UserInfo" => iri::UserInfo::new(s).is_ok(),
		"iri::Host" => iri::Host::new(s).is_ok(),
		"iri::Path" => iri::Path::new(s).is_ok(),
		"iri::Segment" => iri::Segment::new(s).is_ok(),
		"iri::Query" => iri::Query::new(s).is_ok(),
		_ => iri::Fragment::new(s).is_ok(),
	}
}

pub fn gen_case(rng: &mut Rng, stats: &mut AllocStats, thorough: bool) -> AllocCase {
	let ty = *rng.pick(TYPES);
	let iri = ty.starts_with("Iri") || ty.starts_with("iri::");
	let mut sw = Swarm::draw(rng, iri);
	// inputs far larger than any inline buffer, now and then
	let huge = rng.chance(1, if thorough { 50 } else { 200 });
	if huge {
		sw.size = 2;
		stats.hit("probe_huge_input");
	}
	let mut g = Gen { rng, sw: &sw };
	let mut text: String = match ty {
		"Uri" | "Iri" => g.reference(true),
		"UriRef" | "IriRef" => g.reference(false),
		"uri::Scheme" => g.scheme(),
		"uri::Authority" | "iri::Authority" => g.authority(),
		"uri::UserInfo" | "iri::UserInfo" => g.userinfo(),
		"uri::Host" | "iri::Host" => g.host(),
		"uri::Port" => g.port(),
		"uri::Path" | "iri::Path" => g.path(PathCtx::Standalone),
		"uri::Segment" | "iri::Segment" => g.segment(),
		"uri::Query" | "iri::Query" => g.query(),
		_ => g.fragment(),
	};
	if huge && !ty.ends_with("Path") && (!matches!(ty, "Uri" | "Iri" | "UriRef" | "IriRef") || g.rng.chance(1, 2)) {
		// every component far larger than any inline buffer (2 KiB ... 64 KiB), not only paths
		let n = *g.rng.pick(&[1100usize, 1100, 1100, 2100, 2100, 4200, 9000, 20000, 66000]);
		let big_ui = |g: &mut Gen| g.chars(n, b":");
		text = match ty {
			"uri::Scheme" => format!("a{}", "b1+-.".repeat(n / 5)),
			"uri::Port" => "1234567890".repeat(n / 10),
			"uri::UserInfo" | "iri::UserInfo" => big_ui(&mut g),
			"uri::Host" | "iri::Host" => g.chars(n, b""),
			"uri::Segment" | "iri::Segment" => g.chars(n, b":@"),
			"uri::Query" | "iri::Query" | "uri::Fragment" | "iri::Fragment" => g.chars(n, b":@/?"),
			"uri::Authority" | "iri::Authority" => format!("{}@{}:{}", big_ui(&mut g), g.chars(n, b""), "8".repeat(n / 100 + 1)),
			_ => {
				let scheme = if matches!(ty, "Uri" | "Iri") || g.rng.chance(1, 2) { "s:" } else { "" };
				format!("{}//{}@{}:80/p/{}?{}#{}", scheme, big_ui(&mut g), g.chars(n, b""), g.chars(n, b":@"), g.chars(n, b":@/?"), g.chars(n, b":@/?"))
			}
		};
	} else if huge && (ty.ends_with("Path") || matches!(ty, "Uri" | "Iri" | "UriRef" | "IriRef")) {
		// 5 000 segments / tens of KiB
		let n = g.rng.range(2000, 5000);
		let mut tail = String::new();
		for i in 0..n {
			tail.push('/');
			tail.push_str(match i % 5 {
				0 => "seg",
				1 => "",
				2 => "..",
				3 => ".",
				_ => "x%2Fy",
			});
		}
		if let Some(i) = text.find(|c| c == '?' || c == '#') {
			text.insert_str(i, &tail);
		} else {
			text.push_str(&tail);
		}
	}
	// invalid inputs: corrupt a valid one
	let mut pristine = true;
	if g.rng.chance(1, 4) {
		pristine = false;
		let bad = *g.rng.pick(&[" ", "%G0", "%", "[", "\u{FFFF}", "<", "\\", "#%", "\u{E000}"]);
		let at = if text.is_empty() { 0 } else { let mut i = g.rng.below(text.len() + 1); while !text.is_char_boundary(i) { i -= 1; } i };
		text.insert_str(at, bad);
		stats.hit("corrupted_inputs");
	}
	let mut bytes = text.into_bytes();
	if g.rng.chance(1, 40) {
		// ill-formed UTF-8 (byte-based URI types must reject it without allocating)
		bytes.push(0xFF);
		pristine = false;
	}
	if pristine && !valid_for(ty, &bytes) {
		stats.hit("generator_rejected");
	}
	AllocCase { ty: ty.to_string(), text: Txt(bytes), accessor: None }
}
