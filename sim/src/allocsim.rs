//! Engine `allocsim` (C20): the harness owns the global allocator seam. Inside
//! a *window* raised around exactly one library call every allocation request
//! is a recorded fault (count mode) or is refused (deny mode).

use std::alloc::{GlobalAlloc, Layout, System};
use std::cell::Cell;
use std::collections::BTreeMap;

use iref_core::{iri, uri, Iri, IriRef, Uri, UriRef};

use crate::exec::{guarded, Caught};
use crate::gen::{Gen, PathCtx, Swarm};
use crate::rng::Rng;
use crate::trace::*;

pub struct SimAlloc;

thread_local! {
	static WINDOW: Cell<bool> = const { Cell::new(false) };
	static DENY: Cell<bool> = const { Cell::new(false) };
	static REQUESTS: Cell<u64> = const { Cell::new(0) };
	static FIRST_SIZE: Cell<usize> = const { Cell::new(0) };
}

#[inline]
fn on_request(size: usize) -> bool {
	// returns true if the request must be refused
	let inw = WINDOW.try_with(|w| w.get()).unwrap_or(false);
	if inw {
		let n = REQUESTS.with(|r| {
			let n = r.get();
			r.set(n + 1);
			n
		});
		if n == 0 {
			FIRST_SIZE.with(|f| f.set(size));
		}
		return DENY.with(|d| d.get());
	}
	false
}

unsafe impl GlobalAlloc for SimAlloc {
	unsafe fn alloc(&self, l: Layout) -> *mut u8 {
		if on_request(l.size()) {
			return std::ptr::null_mut();
		}
		System.alloc(l)
	}
	unsafe fn alloc_zeroed(&self, l: Layout) -> *mut u8 {
		if on_request(l.size()) {
			return std::ptr::null_mut();
		}
		System.alloc_zeroed(l)
	}
	unsafe fn realloc(&self, p: *mut u8, l: Layout, n: usize) -> *mut u8 {
		if on_request(n) {
			return std::ptr::null_mut();
		}
		System.realloc(p, l, n)
	}
	unsafe fn dealloc(&self, p: *mut u8, l: Layout) {
		System.dealloc(p, l)
	}
}

pub fn set_deny(d: bool) {
	DENY.with(|x| x.set(d));
}

/// Runs `f` inside an allocator window; returns its result and the number of
/// allocation requests made while it ran (and the size of the first).
pub fn window<T>(f: impl FnOnce() -> T) -> (T, u64, usize) {
	REQUESTS.with(|r| r.set(0));
	FIRST_SIZE.with(|r| r.set(0));
	WINDOW.with(|w| w.set(true));
	let r = f();
	WINDOW.with(|w| w.set(false));
	(r, REQUESTS.with(|r| r.get()), FIRST_SIZE.with(|r| r.get()))
}

#[derive(Default, Clone)]
pub struct AllocStats {
	pub c: BTreeMap<&'static str, u64>,
	pub per_type: BTreeMap<String, u64>,
	pub windows: u64,
}

impl AllocStats {
	pub fn hit(&mut self, k: &'static str) {
		*self.c.entry(k).or_insert(0) += 1;
	}
	pub fn merge(&mut self, o: &AllocStats) {
		for (k, v) in &o.c {
			*self.c.entry(k).or_insert(0) += v;
		}
		for (k, v) in &o.per_type {
			*self.per_type.entry(k.clone()).or_insert(0) += v;
		}
		self.windows += o.windows;
	}
}

pub const TYPES: &[&str] = &[
	"Uri", "UriRef", "Iri", "IriRef",
	"uri::Scheme", "uri::Authority", "uri::UserInfo", "uri::Host", "uri::Port", "uri::Path", "uri::Segment", "uri::Query", "uri::Fragment",
	"iri::Authority", "iri::UserInfo", "iri::Host", "iri::Path", "iri::Segment", "iri::Query", "iri::Fragment",
];

fn fail(oracle: &str, ty: &str, accessor: &str, message: String, text: &[u8]) -> Violation {
	Violation {
		property: "C20".into(),
		oracle: oracle.into(),
		step: 0,
		op_index: None,
		op: format!("{}::{}", ty, accessor),
		message,
		pre: Some(Txt(text.to_vec())),
		expected: None,
		observed: None,
		signature: Some(Signature {
			oracle: oracle.into(),
			op: format!("{}::{}", ty, accessor),
			pre: String::new(),
			arg: String::new(),
		}),
	}
}

/// A returned slice as (address, length); no address ever enters a log, only
/// differences to the input's base address.
type Sl = (usize, usize);

fn sl(b: &[u8]) -> Sl {
	(b.as_ptr() as usize, b.len())
}

struct Ctx<'a> {
	ty: &'a str,
	text: &'a [u8],
	stats: &'a mut AllocStats,
	/// stop at this accessor only (replay), or run all
	only: Option<&'a str>,
}

impl<'a> Ctx<'a> {
	/// One accessor call in a window. `ordered` is set only for the five components of a
	/// URI/IRI (reference), the one place where C20 states an order ("lying inside it in that
	/// order and without overlap"); which sub-slice an authority part or a segment is, is C03/C12. `f` returns up to 8 slices (as address
	/// pairs, on the stack - the harness itself must not allocate in here).
	fn acc(&mut self, name: &str, consts: &[&[u8]], ordered: bool, f: impl FnOnce() -> ([Option<Sl>; 8], usize)) -> Result<(), Violation> {
		if let Some(o) = self.only {
			if o != name {
				return Ok(());
			}
		}
		self.stats.windows += 1;
		let r = guarded(|| window(f));
		let ((slices, _n), reqs, first) = match r {
			Caught::Ok(x) => x,
			Caught::Panic(_) => {
				WINDOW.with(|w| w.set(false));
				self.stats.hit("accessor_panicked");
				return Ok(());
			}
			Caught::Injected => unreachable!(),
		};
		if reqs != 0 {
			return Err(fail("allocation_in_window", self.ty, name, format!("{} allocation request(s) during {}::{} (first: {} bytes)", reqs, self.ty, name, first), self.text));
		}
		let base = self.text.as_ptr() as usize;
		let end = base + self.text.len();
		let mut prev_end = base;
		for s in slices.iter().flatten() {
			let (p, l) = *s;
			let inside = p >= base && p + l <= end;
			if !inside {
				// must be one of the fixed constants (by content) - and no allocation happened.
				// The property allows "a fixed constant such as the root path" without saying
				// which accessor may return which, so every path-valued accessor may return any
				// of the library's three path constants, and an empty slice (which carries no
				// byte of anything) is accepted from every accessor.
				let content: &[u8] = unsafe { std::slice::from_raw_parts(p as *const u8, l) };
				let path_valued = !consts.is_empty();
				let ok = content.is_empty() || (path_valued && PATH_CONSTANTS.contains(&content));
				if !ok {
					return Err(fail("slice_outside_input", self.ty, name, format!("{}::{} returned a {}-byte slice that is neither inside the input nor a fixed constant", self.ty, name, l), self.text));
				}
				self.stats.hit("constant_slices_returned");
				continue;
			}
			if ordered {
				if p < prev_end {
					return Err(fail("component_order", self.ty, name, format!("{}::{}: components overlap or are out of order (offset {} < {})", self.ty, name, p - base, prev_end - base), self.text));
				}
				prev_end = p + l;
			}
		}
		Ok(())
	}
}

/// The path constants of the library: `Path::EMPTY`, `Path::EMPTY_ABSOLUTE`, and the `/./` of `parent()`.
const PATH_CONSTANTS: &[&[u8]] = &[b"", b"/", b"/./"];

fn none8() -> [Option<Sl>; 8] {
	[None; 8]
}

macro_rules! ri_accessors {
	($cx:expr, $v:expr, $is_ref:expr) => {{
		let v = $v;
		let cx: &mut Ctx = $cx;
		cx.acc("scheme", &[], false, || {
			let mut o = none8();
			#[allow(clippy::useless_conversion)]
			{
				o[0] = Option::from(v.scheme()).map(|s: &uri::Scheme| sl(s.as_bytes()));
			}
			(o, 1)
		})?;
		cx.acc("authority", &[], false, || {
			let mut o = none8();
			o[0] = v.authority().map(|s| sl(s.as_bytes()));
			(o, 1)
		})?;
		cx.acc("path", &[b"", b"/"], false, || {
			let mut o = none8();
			o[0] = Some(sl(v.path().as_bytes()));
			(o, 1)
		})?;
		cx.acc("query", &[], false, || {
			let mut o = none8();
			o[0] = v.query().map(|s| sl(s.as_bytes()));
			(o, 1)
		})?;
		cx.acc("fragment", &[], false, || {
			let mut o = none8();
			o[0] = v.fragment().map(|s| sl(s.as_bytes()));
			(o, 1)
		})?;
		cx.acc("parts", &[], true, || {
			let mut o = none8();
			let p = v.parts();
			#[allow(clippy::useless_conversion)]
			{
				o[0] = Option::from(p.scheme).map(|s: &uri::Scheme| sl(s.as_bytes()));
			}
			o[1] = p.authority.map(|s| sl(s.as_bytes()));
			o[2] = Some(sl(p.path.as_bytes()));
			o[3] = p.query.map(|s| sl(s.as_bytes()));
			o[4] = p.fragment.map(|s| sl(s.as_bytes()));
			(o, 5)
		})?;
		cx.acc("accessors_in_order", &[b"", b"/"], true, || {
			let mut o = none8();
			#[allow(clippy::useless_conversion)]
			{
				o[0] = Option::from(v.scheme()).map(|s: &uri::Scheme| sl(s.as_bytes()));
			}
			o[1] = v.authority().map(|s| sl(s.as_bytes()));
			o[2] = Some(sl(v.path().as_bytes()));
			o[3] = v.query().map(|s| sl(s.as_bytes()));
			o[4] = v.fragment().map(|s| sl(s.as_bytes()));
			(o, 5)
		})?;
		cx.acc("base", &[], false, || {
			let mut o = none8();
			o[0] = Some(sl(v.base().as_bytes()));
			(o, 1)
		})?;
		// authority and path sub-accessors through the value
		cx.acc("authority.parts", &[], false, || {
			let mut o = none8();
			if let Some(a) = v.authority() {
				let p = a.parts();
				o[0] = p.user_info.map(|s| sl(s.as_bytes()));
				o[1] = Some(sl(p.host.as_bytes()));
				o[2] = p.port.map(|s| sl(s.as_bytes()));
			}
			(o, 3)
		})?;
		cx.acc("path.segments", &[], false, || {
			let mut o = none8();
			for (i, s) in v.path().segments().enumerate() {
				if i < 8 {
					o[i] = Some(sl(s.as_bytes()));
				}
			}
			(o, 8)
		})?;
	}};
}

macro_rules! authority_accessors {
	($cx:expr, $a:expr) => {{
		let a = $a;
		let cx: &mut Ctx = $cx;
		cx.acc("user_info", &[], false, || {
			let mut o = none8();
			o[0] = a.user_info().map(|s| sl(s.as_bytes()));
			(o, 1)
		})?;
		cx.acc("host", &[], false, || {
			let mut o = none8();
			o[0] = Some(sl(a.host().as_bytes()));
			(o, 1)
		})?;
		cx.acc("port", &[], false, || {
			let mut o = none8();
			o[0] = a.port().map(|s| sl(s.as_bytes()));
			(o, 1)
		})?;
		cx.acc("parts", &[], false, || {
			let mut o = none8();
			let p = a.parts();
			o[0] = p.user_info.map(|s| sl(s.as_bytes()));
			o[1] = Some(sl(p.host.as_bytes()));
			o[2] = p.port.map(|s| sl(s.as_bytes()));
			(o, 3)
		})?;
	}};
}

macro_rules! path_accessors {
	($cx:expr, $p:expr) => {{
		let p = $p;
		let cx: &mut Ctx = $cx;
		cx.acc("segments", &[], false, || {
			let mut o = none8();
			let mut n = 0usize;
			for s in p.segments() {
				if n < 8 {
					o[n] = Some(sl(s.as_bytes()));
				}
				n += 1;
			}
			(o, n)
		})?;
		cx.acc("segments.rev", &[], false, || {
			let mut o = none8();
			let mut n = 0usize;
			for s in p.segments().rev() {
				if n < 8 {
					o[n] = Some(sl(s.as_bytes()));
				}
				n += 1;
			}
			(o, n)
		})?;
		cx.acc("segments.interleaved", &[], false, || {
			let mut o = none8();
			let mut it = p.segments();
			let mut n = 0usize;
			loop {
				let a = it.next();
				let b = it.next_back();
				if a.is_none() && b.is_none() {
					break;
				}
				if n < 8 {
					o[n] = a.or(b).map(|s| sl(s.as_bytes()));
				}
				n += 1;
			}
			(o, n)
		})?;
		cx.acc("first", &[], false, || {
			let mut o = none8();
			o[0] = p.first().map(|s| sl(s.as_bytes()));
			(o, 1)
		})?;
		cx.acc("last", &[], false, || {
			let mut o = none8();
			o[0] = p.last().map(|s| sl(s.as_bytes()));
			(o, 1)
		})?;
		cx.acc("file_name", &[], false, || {
			let mut o = none8();
			o[0] = p.file_name().map(|s| sl(s.as_bytes()));
			(o, 1)
		})?;
		cx.acc("directory", &[b""], false, || {
			let mut o = none8();
			o[0] = Some(sl(p.directory().as_bytes()));
			(o, 1)
		})?;
		cx.acc("parent", &[b"/", b"/./", b""], false, || {
			let mut o = none8();
			o[0] = p.parent().map(|s| sl(s.as_bytes()));
			(o, 1)
		})?;
		cx.acc("parent_or_empty", &[b"/", b"/./", b""], false, || {
			let mut o = none8();
			o[0] = Some(sl(p.parent_or_empty().as_bytes()));
			(o, 1)
		})?;
		cx.acc("queries", &[], false, || {
			let o = none8();
			let n = p.segment_count() + p.is_empty() as usize + p.is_absolute() as usize + p.is_relative() as usize;
			(o, n)
		})?;
	}};
}

/// Parses `text` as `ty` inside a window (valid or not) and, when valid, runs
/// every read accessor inside its own window.
pub fn run_case(case: &AllocCase, stats: &mut AllocStats) -> Result<(), Violation> {
	let ty = case.ty.as_str();
	let text: &[u8] = &case.text.0;
	let only = case.accessor.as_deref();
	*stats.per_type.entry(ty.to_string()).or_insert(0) += 1;
	let st = std::str::from_utf8(text).ok();

	// 1. the constructor itself (and `validate`), on valid and invalid input
	macro_rules! ctor {
		($T:ty, $input:expr, $tokens:expr) => {{
			let input = $input;
			if only.is_none() || only == Some("try_from") {
				stats.windows += 1;
				let (r, reqs, first) = window(|| <&$T>::try_from(input).ok().map(|v| sl(v.as_bytes())));
				if reqs != 0 {
					return Err(fail("allocation_in_window", ty, "try_from", format!("{} allocation request(s) during <&{}>::try_from (first: {} bytes)", reqs, ty, first), text));
				}
				if let Some(s) = r {
					if s != sl(text) {
						return Err(fail("value_is_not_the_input", ty, "try_from", format!("<&{}>::try_from returned a value that does not occupy exactly the caller's input", ty), text));
					}
				}
			}
			if only.is_none() || only == Some("validate") {
				stats.windows += 1;
				let (_, reqs, first) = window(|| <$T>::validate($tokens));
				if reqs != 0 {
					return Err(fail("allocation_in_window", ty, "validate", format!("{} allocation request(s) during {}::validate (first: {} bytes)", reqs, ty, first), text));
				}
			}
			if only.is_none() || only == Some("new") {
				stats.windows += 1;
				let (r, reqs, first) = window(|| <$T>::new(input).ok().map(|v| sl(v.as_bytes())));
				if reqs != 0 {
					return Err(fail("allocation_in_window", ty, "new", format!("{} allocation request(s) during {}::new on {} input (first: {} bytes)", reqs, ty, if r.is_some() { "valid" } else { "invalid" }, first), text));
				}
				match r {
					Some(s) => {
						stats.hit("valid_inputs");
						if s != sl(text) {
							return Err(fail("value_is_not_the_input", ty, "new", format!("{}::new returned a value that does not occupy exactly the caller's input", ty), text));
						}
					}
					None => stats.hit("invalid_inputs"),
				}
			}
			<$T>::new(input).ok()
		}};
	}

	match ty {
		"Uri" => {
			if let Some(v) = ctor!(Uri, text, text.iter().copied()) {
				let mut cx = Ctx { ty, text, stats, only };
				ri_accessors!(&mut cx, v, false);
				cx.acc("as_refs", &[], false, || {
					let mut o = none8();
					o[0] = Some(sl(v.as_uri_ref().as_bytes()));
					o[1] = Some(sl(v.as_iri().as_bytes()));
					o[2] = Some(sl(v.as_iri_ref().as_bytes()));
					(o, 3)
				})?;
			}
		}
		"UriRef" => {
			if let Some(v) = ctor!(UriRef, text, text.iter().copied()) {
				let mut cx = Ctx { ty, text, stats, only };
				ri_accessors!(&mut cx, v, true);
				cx.acc("as_refs", &[], false, || {
					let mut o = none8();
					o[0] = v.as_uri().map(|x| sl(x.as_bytes()));
					o[1] = v.as_iri().map(|x| sl(x.as_bytes()));
					o[2] = Some(sl(v.as_iri_ref().as_bytes()));
					(o, 3)
				})?;
			}
		}
		"Iri" => {
			if let Some(s) = st {
				if let Some(v) = ctor!(Iri, s, s.chars()) {
					let mut cx = Ctx { ty, text, stats, only };
					ri_accessors!(&mut cx, v, false);
					cx.acc("as_refs", &[], false, || {
						let mut o = none8();
						o[0] = Some(sl(v.as_iri_ref().as_bytes()));
						o[1] = v.as_uri().map(|x| sl(x.as_bytes()));
						o[2] = v.as_uri_ref().map(|x| sl(x.as_bytes()));
						(o, 3)
					})?;
				}
			}
		}
		"IriRef" => {
			if let Some(s) = st {
				if let Some(v) = ctor!(IriRef, s, s.chars()) {
					let mut cx = Ctx { ty, text, stats, only };
					ri_accessors!(&mut cx, v, true);
					cx.acc("as_refs", &[], false, || {
						let mut o = none8();
						o[0] = v.as_iri().map(|x| sl(x.as_bytes()));
						o[1] = v.as_uri().map(|x| sl(x.as_bytes()));
						o[2] = v.as_uri_ref().map(|x| sl(x.as_bytes()));
						(o, 3)
					})?;
				}
			}
		}
		"uri::Scheme" => {
			ctor!(uri::Scheme, text, text.iter().copied());
		}
		"uri::Authority" => {
			if let Some(a) = ctor!(uri::Authority, text, text.iter().copied()) {
				let mut cx = Ctx { ty, text, stats, only };
				authority_accessors!(&mut cx, a);
			}
		}
		"uri::UserInfo" => {
			ctor!(uri::UserInfo, text, text.iter().copied());
		}
		"uri::Host" => {
			ctor!(uri::Host, text, text.iter().copied());
		}
		"uri::Port" => {
			ctor!(uri::Port, text, text.iter().copied());
		}
		"uri::Path" => {
			if let Some(p) = ctor!(uri::Path, text, text.iter().copied()) {
				let mut cx = Ctx { ty, text, stats, only };
				path_accessors!(&mut cx, p);
			}
		}
		"uri::Segment" => {
			ctor!(uri::Segment, text, text.iter().copied());
		}
		"uri::Query" => {
			ctor!(uri::Query, text, text.iter().copied());
		}
		"uri::Fragment" => {
			ctor!(uri::Fragment, text, text.iter().copied());
		}
		"iri::Authority" => {
			if let Some(s) = st {
				if let Some(a) = ctor!(iri::Authority, s, s.chars()) {
					let mut cx = Ctx { ty, text, stats, only };
					authority_accessors!(&mut cx, a);
				}
			}
		}
		"iri::UserInfo" => {
			if let Some(s) = st {
				ctor!(iri::UserInfo, s, s.chars());
			}
		}
		"iri::Host" => {
			if let Some(s) = st {
				ctor!(iri::Host, s, s.chars());
			}
		}
		"iri::Path" => {
			if let Some(s) = st {
				if let Some(p) = ctor!(iri::Path, s, s.chars()) {
					let mut cx = Ctx { ty, text, stats, only };
					path_accessors!(&mut cx, p);
				}
			}
		}
		"iri::Segment" => {
			if let Some(s) = st {
				ctor!(iri::Segment, s, s.chars());
			}
		}
		"iri::Query" => {
			if let Some(s) = st {
				ctor!(iri::Query, s, s.chars());
			}
		}
		"iri::Fragment" => {
			if let Some(s) = st {
				ctor!(iri::Fragment, s, s.chars());
			}
		}
		_ => {}
	}
	Ok(())
}

fn valid_for(ty: &str, b: &[u8]) -> bool {
	let s = match std::str::from_utf8(b) {
		Ok(s) => s,
		Err(_) => return false,
	};
	match ty {
		"Uri" => Uri::new(b).is_ok(),
		"UriRef" => UriRef::new(b).is_ok(),
		"Iri" => Iri::new(s).is_ok(),
		"IriRef" => IriRef::new(s).is_ok(),
		"uri::Scheme" => uri::Scheme::new(b).is_ok(),
		"uri::Authority" => uri::Authority::new(b).is_ok(),
		"uri::UserInfo" => uri::UserInfo::new(b).is_ok(),
		"uri::Host" => uri::Host::new(b).is_ok(),
		"uri::Port" => uri::Port::new(b).is_ok(),
		"uri::Path" => uri::Path::new(b).is_ok(),
		"uri::Segment" => uri::Segment::new(b).is_ok(),
		"uri::Query" => uri::Query::new(b).is_ok(),
		"uri::Fragment" => uri::Fragment::new(b).is_ok(),
		"iri::Authority" => iri::Authority::new(s).is_ok(),
		"iri::UserInfo" => iri::UserInfo::new(s).is_ok(),
		"iri::Host" => iri::Host::new(s).is_ok(),
		"iri::Path" => iri::Path::new(s).is_ok(),
		"iri::Segment" => iri::Segment::new(s).is_ok(),
		"iri::Query" => iri::Query::new(s).is_ok(),
		_ => iri::Fragment::new(s).is_ok(),
	}
}

pub fn gen_case(rng: &mut Rng, stats: &mut AllocStats, thorough: bool) -> AllocCase {
	let ty = *rng.pick(TYPES);
	let iri = ty.starts_with("Iri") || ty.starts_with("iri::");
	let mut sw = Swarm::draw(rng, iri);
	// inputs far larger than any inline buffer, now and then
	let huge = rng.chance(1, if thorough { 50 } else { 200 });
	if huge {
		sw.size = 2;
		stats.hit("probe_huge_input");
	}
	let mut g = Gen { rng, sw: &sw };
	let mut text: String = match ty {
		"Uri" | "Iri" => g.reference(true),
		"UriRef" | "IriRef" => g.reference(false),
		"uri::Scheme" => g.scheme(),
		"uri::Authority" | "iri::Authority" => g.authority(),
		"uri::UserInfo" | "iri::UserInfo" => g.userinfo(),
		"uri::Host" | "iri::Host" => g.host(),
		"uri::Port" => g.port(),
		"uri::Path" | "iri::Path" => g.path(PathCtx::Standalone),
		"uri::Segment" | "iri::Segment" => g.segment(),
		"uri::Query" | "iri::Query" => g.query(),
		_ => g.fragment(),
	};
	if huge && (ty.ends_with("Path") || matches!(ty, "Uri" | "Iri" | "UriRef" | "IriRef")) {
		// 5 000 segments / tens of KiB
		let n = g.rng.range(2000, 5000);
		let mut tail = String::new();
		for i in 0..n {
			tail.push('/');
			tail.push_str(match i % 5 {
				0 => "seg",
				1 => "",
				2 => "..",
				3 => ".",
				_ => "x%2Fy",
			});
		}
		if let Some(i) = text.find(|c| c == '?' || c == '#') {
			text.insert_str(i, &tail);
		} else {
			text.push_str(&tail);
		}
	}
	// invalid inputs: corrupt a valid one
	let mut pristine = true;
	if g.rng.chance(1, 4) {
		pristine = false;
		let bad = *g.rng.pick(&[" ", "%G0", "%", "[", "\u{FFFF}", "<", "\\", "#%", "\u{E000}"]);
		let at = if text.is_empty() { 0 } else { let mut i = g.rng.below(text.len() + 1); while !text.is_char_boundary(i) { i -= 1; } i };
		text.insert_str(at, bad);
		stats.hit("corrupted_inputs");
	}
	let mut bytes = text.into_bytes();
	if g.rng.chance(1, 40) {
		// ill-formed UTF-8 (byte-based URI types must reject it without allocating)
		bytes.push(0xFF);
		pristine = false;
	}
	if pristine && !valid_for(ty, &bytes) {
		stats.hit("generator_rejected");
	}
	AllocCase { ty: ty.to_string(), text: Txt(bytes), accessor: None }
}
