//! irefsim - deterministic simulation with fault injection for iref.
//! See /verif/DESIGN.md. Exit codes: 0 held, 1 VIOLATION printed, 2 harness error.

mod allocsim;
mod bufsim;
mod exec;
mod gen;
mod itersim;
mod minimise;
mod model;
mod rng;
mod trace;

use std::collections::{BTreeMap, HashSet};
use std::hash::{Hash, Hasher};
use std::path::{Path, PathBuf};
use std::sync::atomic::{AtomicBool, AtomicU64, Ordering};
use std::sync::{Arc, Mutex};
use std::time::Instant;

use serde::{Deserialize, Serialize};
use serde_json::json;

use bufsim::Prop;
use trace::*;

#[global_allocator]
static GLOBAL: allocsim::SimAlloc = allocsim::SimAlloc;

const HANG_SECS: u64 = 30;

fn die(msg: &str) -> ! {
	eprintln!("irefsim: harness error: {}", msg);
	std::process::exit(2)
}

#[derive(Serialize, Deserialize, Clone, Debug)]
struct KnownFinding {
	property: String,
	signature: Signature,
	what: String,
	#[serde(default)]
	replay: Option<String>,
}

#[derive(Serialize, Deserialize, Clone, Debug)]
struct FixedFinding {
	property: String,
	commit: String,
	what: String,
	#[serde(default)]
	replay: Option<String>,
}

#[derive(Serialize, Deserialize, Clone, Debug, Default)]
struct KnownFile {
	#[serde(default)]
	findings: Vec<KnownFinding>,
	#[serde(default)]
	fixed: Vec<FixedFinding>,
}

struct Opts {
	cmd: String,
	property: String,
	tier: String,
	seed: u64,
	jobs: usize,
	runs: Option<u64>,
	from: u64,
	verif: PathBuf,
	file: Option<String>,
	deny: bool,
	profile: String,
	no_evidence: bool,
	quarter: bool,
}

fn parse_args() -> Opts {
	let mut a = std::env::args().skip(1);
	let cmd = a.next().unwrap_or_else(|| die("usage: irefsim <check|replay|digest|corpus> ..."));
	let mut o = Opts {
		cmd,
		property: String::new(),
		tier: std::env::var("VERIF_TIER").unwrap_or_else(|_| "quick".into()),
		seed: std::env::var("VERIF_SEED").ok().and_then(|s| s.trim().parse::<i128>().ok()).map(|v| v as u64).unwrap_or(1),
		jobs: std::env::var("VERIF_JOBS").ok().and_then(|s| s.parse().ok()).unwrap_or_else(|| std::thread::available_parallelism().map(|n| n.get()).unwrap_or(4)),
		runs: None,
		from: 0,
		verif: PathBuf::from(std::env::var("VERIF_DIR").unwrap_or_else(|_| "/verif".into())),
		file: None,
		deny: false,
		profile: option_env!("IREFSIM_PROFILE").unwrap_or("checked").to_string(),
		no_evidence: false,
		quarter: false,
	};
	while let Some(x) = a.next() {
		match x.as_str() {
			"--property" => o.property = a.next().unwrap_or_default(),
			"--tier" => o.tier = a.next().unwrap_or_default(),
			"--seed" => o.seed = a.next().and_then(|s| s.parse::<i128>().ok()).map(|v| v as u64).unwrap_or_else(|| die("bad --seed")),
			"--jobs" => o.jobs = a.next().and_then(|s| s.parse().ok()).unwrap_or_else(|| die("bad --jobs")),
			"--runs" => o.runs = Some(a.next().and_then(|s| s.parse().ok()).unwrap_or_else(|| die("bad --runs"))),
			"--from" => o.from = a.next().and_then(|s| s.parse().ok()).unwrap_or_else(|| die("bad --from")),
			"--verif" => o.verif = PathBuf::from(a.next().unwrap_or_default()),
			"--deny" => o.deny = true,
			"--no-evidence" => o.no_evidence = true,
			"--quarter" => o.quarter = true,
			"--profile-name" => o.profile = a.next().unwrap_or_default(),
			s if !s.starts_with("--") && o.file.is_none() => o.file = Some(s.to_string()),
			s => die(&format!("unknown argument {}", s)),
		}
	}
	if o.tier != "quick" && o.tier != "thorough" {
		die("tier must be quick or thorough");
	}
	o.jobs = o.jobs.max(1);
	o
}

fn load_known(verif: &Path) -> KnownFile {
	let p = verif.join("known_findings.json");
	match std::fs::read_to_string(&p) {
		Ok(s) => serde_json::from_str(&s).unwrap_or_else(|e| die(&format!("{}: {}", p.display(), e))),
		Err(_) => KnownFile::default(),
	}
}

fn is_known<'a>(known: &'a KnownFile, v: &Violation) -> Option<&'a KnownFinding> {
	// a listed field "*" matches anything: a finding may be identified by its call site
	// (oracle, op, argument class) alone, or down to the class of the state it fails in
	let sig = v.signature.as_ref()?;
	let m = |k: &str, x: &str| k == "*" || k == x;
	known.findings.iter().find(|k| k.property == v.property && m(&k.signature.oracle, &sig.oracle) && m(&k.signature.op, &sig.op) && m(&k.signature.pre, &sig.pre) && m(&k.signature.arg, &sig.arg))
}

fn dhash<T: Hash>(t: &T) -> u64 {
	let mut h = std::collections::hash_map::DefaultHasher::new();
	t.hash(&mut h);
	h.finish()
}

// ---------------------------------------------------------------------------
// generic batch runner: deterministic whatever the worker count

struct Watch {
	slots: Vec<AtomicU64>,  // run index + 1, 0 = idle
	since: Vec<AtomicU64>,  // ms since t0
	t0: Instant,
	done: AtomicBool,
}

const BLOCK: u64 = 512;

/// Runs `body(run_index, worker_state)` for run indices from..from+total.
/// `body` returns `Some(v)` for an (unknown) violation; the batch then winds
/// down, but every run with a smaller index is still executed, so the
/// violation reported - the one with the lowest index - does not depend on
/// scheduling.
fn run_batch<S: Default + Send, V: Send>(from: u64, total: u64, jobs: usize, on_hang: impl Fn(u64) + Send + Sync, body: impl Fn(u64, &mut S) -> Option<V> + Sync) -> (Vec<S>, Option<(u64, V)>) {
	let next = AtomicU64::new(0);
	let min_fail = AtomicU64::new(u64::MAX);
	let fails: Mutex<Vec<(u64, V)>> = Mutex::new(Vec::new());
	let watch = Arc::new(Watch {
		slots: (0..jobs).map(|_| AtomicU64::new(0)).collect(),
		since: (0..jobs).map(|_| AtomicU64::new(0)).collect(),
		t0: Instant::now(),
		done: AtomicBool::new(false),
	});
	let mut states: Vec<S> = Vec::new();
	std::thread::scope(|sc| {
		// watchdog: the only reader of the wall clock that can influence the
		// outcome, and only by turning a livelock into a report
		let w = watch.clone();
		let on_hang = &on_hang;
		sc.spawn(move || {
			while !w.done.load(Ordering::Relaxed) {
				std::thread::sleep(std::time::Duration::from_millis(250));
				let now = w.t0.elapsed().as_millis() as u64;
				for (i, s) in w.slots.iter().enumerate() {
					let r = s.load(Ordering::Relaxed);
					if r != 0 && now.saturating_sub(w.since[i].load(Ordering::Relaxed)) > HANG_SECS * 1000 {
						on_hang(r - 1);
						std::process::exit(1);
					}
				}
			}
		});
		let mut hs = Vec::new();
		for wi in 0..jobs {
			let next = &next;
			let min_fail = &min_fail;
			let fails = &fails;
			let body = &body;
			let watch = watch.clone();
			hs.push(sc.spawn(move || {
				let mut st = S::default();
				loop {
					let b = next.fetch_add(1, Ordering::Relaxed);
					let lo = b * BLOCK;
					if lo >= total {
						break;
					}
					let hi = (lo + BLOCK).min(total);
					for i in lo..hi {
						let run = from + i;
						if run > min_fail.load(Ordering::Relaxed) {
							break;
						}
						watch.since[wi].store(watch.t0.elapsed().as_millis() as u64, Ordering::Relaxed);
						watch.slots[wi].store(run + 1, Ordering::Relaxed);
						let r = body(run, &mut st);
						watch.slots[wi].store(0, Ordering::Relaxed);
						if let Some(v) = r {
							min_fail.fetch_min(run, Ordering::Relaxed);
							fails.lock().unwrap().push((run, v));
						}
					}
				}
				st
			}));
		}
		for h in hs {
			states.push(h.join().unwrap_or_else(|_| die("worker thread died")));
		}
		watch.done.store(true, Ordering::Relaxed);
	});
	let mut f = fails.into_inner().unwrap();
	f.sort_by_key(|x| x.0);
	(states, f.into_iter().next())
}

// ---------------------------------------------------------------------------

fn write_json(path: &Path, v: &serde_json::Value) {
	if let Some(d) = path.parent() {
		let _ = std::fs::create_dir_all(d);
	}
	let s = serde_json::to_string_pretty(v).unwrap();
	std::fs::write(path, s + "\n").unwrap_or_else(|e| die(&format!("cannot write {}: {}", path.display(), e)));
}

fn write_replay(o: &Opts, r: &Replay) -> PathBuf {
	let dir = o.verif.join("replays");
	let _ = std::fs::create_dir_all(&dir);
	let p = dir.join(format!("{}-{}-{}.json", r.property, r.seed, r.run));
	write_json(&p, &serde_json::to_value(r).unwrap());
	p
}

fn report_violation(o: &Opts, r: &Replay) -> ! {
	let p = write_replay(o, r);
	println!("  oracle   : {}", r.violation.oracle);
	println!("  op       : {} (step {}, op {:?})", r.violation.op, r.violation.step, r.violation.op_index);
	println!("  message  : {}", r.violation.message);
	if let Some(t) = &r.violation.pre {
		println!("  before   : {:?}", t.lossy());
	}
	if let Some(t) = &r.violation.expected {
		println!("  expected : {:?}", t.lossy());
	}
	if let Some(t) = &r.violation.observed {
		println!("  observed : {:?}", t.lossy());
	}
	if let Some(t) = &r.trace {
		println!("  trace    : {}", serde_json::to_string(t).unwrap());
	}
	println!("VIOLATION property={} replay={}", r.property, p.display());
	std::process::exit(1)
}

/// Re-executes a bufsim run that hung, publishing the trace before every step, and returns
/// what had been published when the watchdog bound expires again: the history up to and
/// including the step that never returns.
fn recover_hung_trace(property: &str, seed: u64, tier: &str, run: u64) -> Option<Trace> {
	let prop = match property {
		"C04" => Prop::C04,
		"C10" => Prop::C10,
		"C11" => Prop::C11,
		_ => return None,
	};
	let slot: Arc<Mutex<Option<Trace>>> = Arc::new(Mutex::new(None));
	let s2 = slot.clone();
	let thorough = tier == "thorough";
	let (tx, rx) = std::sync::mpsc::channel::<()>();
	std::thread::spawn(move || {
		let mut st = bufsim::Stats::default();
		let _ = bufsim::run_one_observed(prop, rng::mix(seed, prop.engine_id(), run), thorough, &mut st, &mut |t| {
			*s2.lock().unwrap() = Some(t.clone());
		});
		let _ = tx.send(());
	});
	match rx.recv_timeout(std::time::Duration::from_secs(HANG_SECS)) {
		Ok(()) => None, // it completed this time: leave the seed-only replay
		Err(_) => slot.lock().unwrap().clone(),
	}
}

fn hang_report(o_verif: &Path, engine: &str, property: &str, seed: u64, tier: &str, run: u64) {
	let trace = if engine == "bufsim" { recover_hung_trace(property, seed, tier, run) } else { None };
	let r = Replay {
		engine: engine.into(),
		property: property.into(),
		seed,
		run,
		profile: format!("hang,tier={}", tier),
		trace,
		iter: None,
		alloc: None,
		violation: Violation {
			property: property.into(),
			oracle: "hang".into(),
			step: 0,
			op_index: None,
			op: "unknown".into(),
			message: format!("run {} did not finish within {} s of wall clock; when a trace is recorded its last step is the one that never returned (not minimised), otherwise replay re-executes the run from its seed", run, HANG_SECS),
			pre: None,
			expected: None,
			observed: None,
			signature: None,
		},
		original_steps: 0,
		minimise_attempts: 0,
	};
	let dir = o_verif.join("replays");
	let _ = std::fs::create_dir_all(&dir);
	let p = dir.join(format!("{}-{}-{}-hang.json", property, seed, run));
	write_json(&p, &serde_json::to_value(&r).unwrap());
	println!("VIOLATION property={} replay={}", property, p.display());
}

fn tier_runs(o: &Opts, quick: u64, thorough: u64) -> u64 {
	let n = o.runs.unwrap_or(if o.tier == "thorough" { thorough } else { quick });
	if o.quarter {
		(n / 4).max(1)
	} else {
		n
	}
}

/// The unchecked-profile pass uses run indices disjoint from the checked pass.
fn first_run(o: &Opts, total_checked: u64) -> u64 {
	if o.quarter {
		o.from + total_checked * 4
	} else {
		o.from
	}
}

fn unchecked_runs() -> u64 {
	std::env::var("IREFSIM_UNCHECKED_RUNS").ok().and_then(|s| s.parse().ok()).unwrap_or(0)
}

#[derive(Default)]
struct BufWorker {
	stats: bufsim::Stats,
	runs: u64,
	steps: u64,
	digest: u64,
	nontrivial: HashSet<u64>,
	known_hits: BTreeMap<String, u64>,
	run_digests: Vec<(u64, u64)>,
}

fn corpus_files(verif: &Path, property: &str) -> Vec<PathBuf> {
	let mut v = Vec::new();
	if let Ok(rd) = std::fs::read_dir(verif.join("corpus")) {
		for e in rd.flatten() {
			let p = e.path();
			let name = p.file_name().and_then(|s| s.to_str()).unwrap_or("").to_string();
			if name.starts_with(property) && name.ends_with(".json") {
				v.push(p);
			}
		}
	}
	v.sort();
	v
}

/// Re-executes one replay file; returns the violation it produces now (if any).
fn exec_replay(r: &Replay) -> Result<Option<Violation>, String> {
	match r.engine.as_str() {
		"bufsim" => {
			let prop = match r.property.as_str() {
				"C04" => Prop::C04,
				"C10" => Prop::C10,
				"C11" => Prop::C11,
				p => return Err(format!("bufsim does not serve {}", p)),
			};
			match &r.trace {
				Some(t) => bufsim::replay_trace(prop, t).map_err(|_| "trace is not executable (invalid argument or inapplicable step)".to_string()),
				None => {
					// hang replay: re-run from the seed
					let thorough = r.profile.contains("tier=thorough");
					let mut st = bufsim::Stats::default();
					let rr = bufsim::run_one(prop, rng::mix(r.seed, prop.engine_id(), r.run), thorough, &mut st);
					Ok(rr.violation)
				}
			}
		}
		"itersim" => match &r.iter {
			Some(c) => itersim::run_case(c).map_err(|_| "path is not valid".to_string()),
			None => Err("no iter case in replay".into()),
		},
		"allocsim" => match &r.alloc {
			Some(c) => {
				let mut st = allocsim::AllocStats::default();
				Ok(allocsim::run_case(c, &mut st).err())
			}
			None => Err("no alloc case in replay".into()),
		},
		e => Err(format!("unknown engine {}", e)),
	}
}

/// Regression corpus: replays of fixed and known findings, re-executed first.
fn run_corpus(o: &Opts, known: &KnownFile, property: &str) -> (u64, Vec<String>) {
	let mut n = 0;
	let mut lines = Vec::new();
	for p in corpus_files(&o.verif, property) {
		let s = std::fs::read_to_string(&p).unwrap_or_else(|e| die(&format!("{}: {}", p.display(), e)));
		let r: Replay = serde_json::from_str(&s).unwrap_or_else(|e| die(&format!("{}: {}", p.display(), e)));
		if r.property != property {
			continue;
		}
		n += 1;
		match exec_replay(&r) {
			Ok(None) => {}
			Ok(Some(v)) => {
				if let Some(k) = is_known(known, &v) {
					lines.push(format!("KNOWN-FINDING: property={} {}", property, k.what));
				} else {
					println!("regression corpus entry {} fails again:", p.display());
					let mut r2 = r.clone();
					r2.violation = v;
					report_violation(o, &r2);
				}
			}
			Err(e) => die(&format!("corpus entry {}: {}", p.display(), e)),
		}
	}
	(n, lines)
}

fn check_bufsim(o: &Opts, prop: Prop) {
	let t0 = Instant::now();
	let known = load_known(&o.verif);
	let thorough = o.tier == "thorough";
	let total = match prop {
		Prop::C04 => tier_runs(o, 6_000_000, 120_000_000),
		Prop::C10 => tier_runs(o, 4_000_000, 50_000_000),
		Prop::C11 => tier_runs(o, 6_000_000, 100_000_000),
	};
	println!("irefsim bufsim property={} tier={} seed={} runs={} jobs={} profile={}", prop.id(), o.tier, o.seed, total, o.jobs, o.profile);
	let (corpus_n, mut known_lines) = run_corpus(o, &known, prop.id());
	let seed = o.seed;
	let verif = o.verif.clone();
	let tier = o.tier.clone();
	let pid = prop.id();
	let keep_digests = o.cmd == "digest";
	let (workers, fail) = run_batch::<BufWorker, (Trace, Violation)>(
		first_run(o, total),
		total,
		o.jobs,
		|run| hang_report(&verif, "bufsim", pid, seed, &tier, run),
		|run, w| {
			let rs = rng::mix(seed, prop.engine_id(), run);
			let r = bufsim::run_one(prop, rs, thorough, &mut w.stats);
			w.runs += 1;
			w.steps += r.steps as u64;
			let th = dhash(&r.trace);
			let d = th ^ (r.steps as u64).wrapping_mul(0x9E37_79B9) ^ dhash(&r.final_text).rotate_left(17) ^ r.violation.as_ref().map(|v| dhash(&(v.oracle.clone(), v.step, v.op.clone()))).unwrap_or(0);
			w.digest = w.digest.wrapping_add(d);
			if keep_digests {
				w.run_digests.push((run, d));
			}
			if r.nontrivial && w.nontrivial.len() < 2_000_000 {
				w.nontrivial.insert(th);
			}
			if let Some(v) = r.violation {
				if let Some(k) = is_known(&known, &v) {
					*w.known_hits.entry(k.what.clone()).or_insert(0) += 1;
					return None;
				}
				return Some((r.trace, v));
			}
			None
		},
	);
	if keep_digests {
		let mut all: Vec<(u64, u64)> = workers.iter().flat_map(|w| w.run_digests.iter().cloned()).collect();
		all.sort();
		for (r, d) in all {
			println!("run {} {:016x}", r, d);
		}
	}
	if let Some((run, (trace, v))) = fail {
		println!("run {} (seed {}) violates {}; minimising ...", run, seed, prop.id());
		let orig_steps = trace.steps.len();
		let known2 = &known;
		// a bug in the minimiser must never hide the violation: fall back to the full trace
		let m = match std::panic::catch_unwind(std::panic::AssertUnwindSafe(|| minimise::minimise(prop, &trace, &v, &|c| is_known(known2, c).is_none()))) {
			Ok(m) => m,
			Err(_) => {
				println!("note: minimiser failed, reporting the unminimised trace");
				minimise::Minimised { trace: trace.clone(), violation: v.clone(), attempts: 0 }
			}
		};
		let r = Replay {
			engine: "bufsim".into(),
			property: prop.id().into(),
			seed,
			run,
			profile: o.profile.clone(),
			trace: Some(m.trace),
			iter: None,
			alloc: None,
			violation: m.violation,
			original_steps: orig_steps,
			minimise_attempts: m.attempts,
		};
		// the minimised file must reproduce in a fresh execution
		let r = match exec_replay(&r) {
			Ok(Some(v2)) if v2.oracle == r.violation.oracle => r,
			_ => {
				// never lose a violation to the minimiser: report the original trace instead
				println!("note: minimised trace did not reproduce, reporting the unminimised trace");
				Replay { trace: Some(trace.clone()), violation: v.clone(), minimise_attempts: 0, ..r }
			}
		};
		report_violation(o, &r);
	}
	// merge
	let mut stats = bufsim::Stats::default();
	let mut runs = 0;
	let mut steps = 0;
	let mut digest = 0u64;
	let mut nontrivial: HashSet<u64> = HashSet::new();
	let mut known_hits: BTreeMap<String, u64> = BTreeMap::new();
	for w in &workers {
		stats.merge(&w.stats);
		runs += w.runs;
		steps += w.steps;
		digest = digest.wrapping_add(w.digest);
		for h in &w.nontrivial {
			nontrivial.insert(*h);
		}
		for (k, n) in &w.known_hits {
			*known_hits.entry(k.clone()).or_insert(0) += n;
		}
	}
	for (k, n) in &known_hits {
		let line = format!("KNOWN-FINDING: property={} {}", prop.id(), k);
		if !known_lines.contains(&line) {
			known_lines.push(line);
		}
		println!("  ({} runs hit: {})", n, k);
	}
	for l in &known_lines {
		println!("{}", l);
	}
	for k in known.findings.iter().filter(|k| k.property == prop.id()) {
		let line = format!("KNOWN-FINDING: property={} {}", prop.id(), k.what);
		if !known_lines.contains(&line) {
			println!("note: listed finding did not reproduce in this run: {}", k.what);
		}
	}
	// vacuity guard: a batch in which the operations the property is about never ran decides
	// nothing and must not report "held" (harness error, not a violation)
	if total >= 100_000 {
		let n = |k: &str| stats.ops.get(k).copied().unwrap_or(0);
		let enough = match prop {
			Prop::C04 => n("path_burst") > 1000 && n("authority_burst") > 1000 && n("set_path(some)") > 1000 && n("resolve") + n("into_resolved") > 1000,
			Prop::C10 => n("path_burst") > 1000 && stats.c.get("standalone_twin_bursts").copied().unwrap_or(0) > 1000,
			Prop::C11 => n("authority_burst") > 1000,
		};
		if !enough {
			die(&format!("vacuous batch for {}: the operations the property is about were (almost) never executed: {:?}", prop.id(), stats.ops));
		}
		// silent discards must stay rare, otherwise the batch is decided on a thinned-out space
		let c = |k: &str| stats.c.get(k).copied().unwrap_or(0);
		// (limits are generous: a broken setter that panics in a few percent of the set-up steps of a
		// C10/C11 run must not stop those checks from deciding the other 95 % of their runs)
		for (k, limit) in [("generator_rejected", total / 20), ("generator_gave_up", total / 20), ("invalid_initial_state", total / 20), ("runs_discarded_at_start", total / 20), ("runs_abandoned_on_unarmed_failure", total / 4), ("invalid_after_conversion_run_abandoned", total / 4), ("conversion_panicked_run_abandoned", total / 4)] {
			if c(k) > 0 {
				println!("note: {} = {} of {} runs", k, c(k), total);
			}
			if c(k) > limit {
				die(&format!("{} = {} in a batch of {} runs: too many runs are silently dropped for {} to be decided", k, c(k), total, prop.id()));
			}
		}
	}
	let wall = t0.elapsed().as_secs_f64();
	// samples: the first three runs, re-executed here
	let mut samples = Vec::new();
	for run in o.from..o.from + 3.min(total) {
		let mut st = bufsim::Stats::default();
		let r = bufsim::run_one(prop, rng::mix(seed, prop.engine_id(), run), thorough, &mut st);
		samples.push(json!({"run": run, "trace": r.trace, "steps_executed": r.steps}));
	}
	let faults: BTreeMap<&str, u64> = stats.c.iter().filter(|(k, _)| k.starts_with("fault_")).map(|(k, v)| (*k, *v)).collect();
	let probes: BTreeMap<&str, u64> = stats.c.iter().filter(|(k, _)| k.starts_with("probe_")).map(|(k, v)| (*k, *v)).collect();
	let routes: BTreeMap<&str, u64> = stats.c.iter().filter(|(k, _)| k.starts_with("route_")).map(|(k, v)| (*k, *v)).collect();
	let other: BTreeMap<&str, u64> = stats.c.iter().filter(|(k, _)| !k.starts_with("fault_") && !k.starts_with("probe_") && !k.starts_with("route_")).map(|(k, v)| (*k, *v)).collect();
	println!("runs={} steps={} distinct_nontrivial={} tuples={} wall={:.1}s batch_digest={:016x}", runs, steps, nontrivial.len(), stats.tuples.len(), wall, digest);
	if !o.no_evidence {
		let rule = match prop {
			Prop::C04 => "one case = one seeded history (initial buffer by one of 8 routes x generated text x spare capacity, then setter / resolve / convert / PathMut burst / AuthorityMut burst / direct PathBuf call / roundtrip / clone steps, handle lifecycle faults inside bursts); non-trivial = at least one step changed the buffer text; distinct = distinct hash of the concrete trace (counted with a hash set, capped at 2 000 000 entries per worker: a lower bound once the cap is reached)",
			Prop::C10 => "one case = one seeded history dominated by bursts of path edits through one PathMut (stand-alone PathBuf or embedded in the four owned URI/IRI types), each burst run twice (continued handle vs fresh handle per edit) plus once on a stand-alone twin; non-trivial = some burst of >= 2 operations changed the text through the handle; distinct = distinct hash of the concrete trace (hash set, capped at 2 000 000 entries per worker: a lower bound once the cap is reached)",
			Prop::C11 => "one case = one seeded history dominated by bursts of set_userinfo/set_host/set_port/read through one AuthorityMut on the four owned URI/IRI types, each burst run twice (continued handle vs fresh handle per call); non-trivial = some burst of >= 2 operations changed the text through the handle; distinct = distinct hash of the concrete trace (hash set, capped at 2 000 000 entries per worker: a lower bound once the cap is reached)",
		};
		let ev = json!({
			"property_id": prop.id(),
			"tier": o.tier,
			"seed": seed as i64,
			"level": "exploration",
			"wall_s": wall,
			"violations": 0,
			"coverage": {
				"evaluations": runs,
				"distinct_nontrivial": nontrivial.len(),
				"rule": rule,
				"samples": samples,
				"exhaustive": false,
				"engine": "bufsim",
				"profile": o.profile,
				"logical_steps_executed": steps,
				"simulated_time": "none: the system under test reads no clock; progress is counted in logical steps",
				"runs_per_hour": if wall > 0.0 { (runs as f64 / wall * 3600.0) as u64 } else { 0 },
				"seeds": format!("run i uses mix(VERIF_SEED={}, engine, i), i in {}..{}", seed, o.from, o.from + total),
				"faults_fired": faults,
				"rare_condition_probes": probes,
				"construction_routes": routes,
				"operation_histogram": stats.ops,
				"distinct_state_op_arg_lifecycle_tuples": stats.tuples.len(),
				"counters": other,
				"regression_corpus_replayed": corpus_n,
				"known_findings_hit": known_hits,
				"unchecked_profile_runs_before_this_pass": unchecked_runs(),
				"batch_digest": format!("{:016x}", digest),
				"components_real": ["iref-core (all of crates/core/src, built from /repo's working tree)"],
				"components_stubbed": [],
			},
			"assumptions": [
				"the reference model (RFC 3986 Appendix B split, section 3.2 authority split, literal '/'-split with shield equivalence) is the specification of C10/C11; it shares no code with iref",
				"C04 judges well-formedness with the library's own validator, as the property words it (C01 is not decided here)",
				"seeded sampling: a clean batch is evidence, not proof",
				"overflow checks and debug assertions are ON in this build (profile 'checked'), as under cargo test"
			]
		});
		write_json(&o.verif.join("evidence").join(format!("{}.json", prop.id())), &ev);
	}
	println!("OK property={} held on everything explored", prop.id());
}

#[derive(Default)]
struct IterWorker {
	stats: itersim::IterStats,
	runs: u64,
	steps: u64,
	digest: u64,
	distinct: HashSet<u64>,
	run_digests: Vec<(u64, u64)>,
}

fn check_itersim(o: &Opts) {
	let t0 = Instant::now();
	let known = load_known(&o.verif);
	let total = tier_runs(o, 40_000_000, 1_200_000_000);
	println!("irefsim itersim property=C12 tier={} seed={} runs={} jobs={}", o.tier, o.seed, total, o.jobs);
	let (corpus_n, known_lines) = run_corpus(o, &known, "C12");
	let seed = o.seed;
	let verif = o.verif.clone();
	let tier = o.tier.clone();
	let keep_digests = o.cmd == "digest";
	let (workers, fail) = run_batch::<IterWorker, (IterCase, Violation)>(
		first_run(o, total),
		total,
		o.jobs,
		|run| hang_report(&verif, "itersim", "C12", seed, &tier, run),
		|run, w| {
			let mut rng = rng::Rng::new(rng::mix(seed, 12, run));
			let case = itersim::gen_case(&mut rng, &mut w.stats);
			w.runs += 1;
			w.steps += case.schedule.len() as u64;
			let h = dhash(&case);
			let r = match itersim::run_case(&case) {
				Ok(r) => r,
				Err(()) => {
					w.stats.hit("generator_rejected");
					None
				}
			};
			let d = h ^ r.as_ref().map(|v| dhash(&v.oracle)).unwrap_or(0);
			w.digest = w.digest.wrapping_add(d);
			if keep_digests {
				w.run_digests.push((run, d));
			}
			if case.path.len() > 1 && w.distinct.len() < 2_000_000 {
				w.distinct.insert(h);
			}
			match r {
				Some(v) if is_known(&known, &v).is_none() => Some((case, v)),
				_ => None,
			}
		},
	);
	if keep_digests {
		let mut all: Vec<(u64, u64)> = workers.iter().flat_map(|w| w.run_digests.iter().cloned()).collect();
		all.sort();
		for (r, d) in all {
			println!("run {} {:016x}", r, d);
		}
	}
	if let Some((run, (case, v))) = fail {
		println!("run {} (seed {}) violates C12; minimising ...", run, seed);
		let (c, v2, attempts) = itersim::minimise(&case, &v);
		let r = Replay {
			engine: "itersim".into(),
			property: "C12".into(),
			seed,
			run,
			profile: o.profile.clone(),
			trace: None,
			iter: Some(c.clone()),
			alloc: None,
			violation: v2,
			original_steps: case.schedule.len(),
			minimise_attempts: attempts,
		};
		println!("  path     : {:?} ({}), schedule {}", c.path, if c.iri { "iri" } else { "uri" }, c.schedule);
		report_violation(o, &r);
	}
	for l in &known_lines {
		println!("{}", l);
	}
	let mut stats = itersim::IterStats::default();
	let mut runs = 0;
	let mut steps = 0;
	let mut digest = 0u64;
	let mut distinct: HashSet<u64> = HashSet::new();
	for w in &workers {
		stats.merge(&w.stats);
		runs += w.runs;
		steps += w.steps;
		digest = digest.wrapping_add(w.digest);
		for h in &w.distinct {
			distinct.insert(*h);
		}
	}
	if total >= 100_000 && (steps < total || stats.c.get("generator_rejected").copied().unwrap_or(0) > total / 100) {
		die("vacuous batch for C12: (almost) no iterator step was executed or the generator is rejected");
	}
	let wall = t0.elapsed().as_secs_f64();
	let mut samples = Vec::new();
	for run in o.from..o.from + 3.min(total) {
		let mut rng = rng::Rng::new(rng::mix(seed, 12, run));
		let mut st = itersim::IterStats::default();
		samples.push(serde_json::to_value(itersim::gen_case(&mut rng, &mut st)).unwrap());
	}
	let sched: BTreeMap<String, serde_json::Value> = stats
		.schedules
		.iter()
		.map(|(n, s)| (format!("n={}", n), json!({"distinct_schedules_seen": s.len(), "of_2_pow_n": 1u64 << n, "capped_at": 5000})))
		.collect();
	println!("runs={} steps={} distinct={} wall={:.1}s batch_digest={:016x}", runs, steps, distinct.len(), wall, digest);
	if !o.no_evidence {
		let ev = json!({
			"property_id": "C12",
			"tier": o.tier,
			"seed": seed as i64,
			"level": "exploration",
			"wall_s": wall,
			"violations": 0,
			"coverage": {
				"evaluations": runs,
				"distinct_nontrivial": distinct.len(),
				"rule": "one case = (family, generated stand-alone path, schedule of n+3 front/back steps, segments() or normalized_segments(), iterator obtained through segments() or IntoIterator for &Path); one case in three also schedules compound steps - nth(k), nth_back(k), and, ending the schedule, the consuming count(), last(), collect(), rev().collect(), fold() called on the iterator itself so that an overriding implementation is the code that runs - each held to the equivalent number of single steps; every step is compared with a VecDeque of the independent '/'-split by text and byte offset; derived queries checked on the same path; non-trivial = path longer than one byte; distinct = distinct hash of (family, path, schedule, iterator kind) (hash set, capped at 2 000 000 entries per worker: a lower bound once the cap is reached)",
				"samples": samples,
				"exhaustive": false,
				"engine": "itersim",
				"logical_steps_executed": steps,
				"simulated_time": "none: no clock in the system under test; steps are iterator calls",
				"runs_per_hour": if wall > 0.0 { (runs as f64 / wall * 3600.0) as u64 } else { 0 },
				"seeds": format!("run i uses mix(VERIF_SEED={}, 12, i), i in {}..{}", seed, o.from, o.from + total),
				"faults_fired": {"scheduler_decisions_front_or_back": steps},
				"interleavings_reached_per_segment_count": sched,
				"counters": stats.c,
				"regression_corpus_replayed": corpus_n,
				"unchecked_profile_runs_before_this_pass": unchecked_runs(),
				"batch_digest": format!("{:016x}", digest),
				"components_real": ["iref-core Path::segments / normalized_segments / derived queries, both families"],
				"components_stubbed": [],
			},
			"assumptions": [
				"the oracle is the literal '/'-split of the text (independent code); parent() is judged as 'the same sequence minus its last segment, same absoluteness, modulo a shielding dot segment'",
				"what normalized_segments() yields is C09 (not decided here); only its length and double-ended self-consistency are checked",
				"seeded sampling: a clean batch is evidence, not proof"
			]
		});
		write_json(&o.verif.join("evidence").join("C12.json"), &ev);
	}
	println!("OK property=C12 held on everything explored");
}

#[derive(Default)]
struct AllocWorker {
	stats: allocsim::AllocStats,
	runs: u64,
	digest: u64,
	distinct: HashSet<u64>,
	run_digests: Vec<(u64, u64)>,
}

fn check_allocsim(o: &Opts) {
	let t0 = Instant::now();
	let known = load_known(&o.verif);
	let thorough = o.tier == "thorough";
	let total = tier_runs(o, 16_000_000, 600_000_000);
	println!("irefsim allocsim property=C20 tier={} seed={} runs={} jobs={}", o.tier, o.seed, total, o.jobs);
	let (corpus_n, known_lines) = run_corpus(o, &known, "C20");
	let seed = o.seed;
	let verif = o.verif.clone();
	let tier = o.tier.clone();
	let keep_digests = o.cmd == "digest";
	let (workers, fail) = run_batch::<AllocWorker, (AllocCase, Violation)>(
		first_run(o, total),
		total,
		o.jobs,
		|run| hang_report(&verif, "allocsim", "C20", seed, &tier, run),
		|run, w| {
			let mut rng = rng::Rng::new(rng::mix(seed, 20, run));
			let case = allocsim::gen_case(&mut rng, &mut w.stats, thorough);
			w.runs += 1;
			let h = dhash(&case);
			let r = allocsim::run_case(&case, &mut w.stats);
			let d = h ^ r.as_ref().err().map(|v| dhash(&v.oracle)).unwrap_or(0);
			w.digest = w.digest.wrapping_add(d);
			if keep_digests {
				w.run_digests.push((run, d));
			}
			if !case.text.0.is_empty() && w.distinct.len() < 2_000_000 {
				w.distinct.insert(h);
			}
			match r {
				Err(v) if is_known(&known, &v).is_none() => Some((case, v)),
				_ => None,
			}
		},
	);
	if keep_digests {
		let mut all: Vec<(u64, u64)> = workers.iter().flat_map(|w| w.run_digests.iter().cloned()).collect();
		all.sort();
		for (r, d) in all {
			println!("run {} {:016x}", r, d);
		}
	}
	if let Some((run, (case, v))) = fail {
		println!("run {} (seed {}) violates C20; minimising ...", run, seed);
		// minimise the input text: drop characters while the same accessor still fails the same way
		let mut best = case.clone();
		let mut bv = v.clone();
		let mut attempts = 0;
		loop {
			let mut progress = false;
			let t = String::from_utf8_lossy(&best.text.0).into_owned();
			let cs: Vec<char> = t.chars().collect();
			let mut cands: Vec<String> = Vec::new();
			if cs.len() > 8 {
				cands.push(cs[..cs.len() / 2].iter().collect());
				cands.push(cs[cs.len() / 2..].iter().collect());
			}
			if cs.len() <= 200 {
				for i in 0..cs.len() {
					let mut x = cs.clone();
					x.remove(i);
					cands.push(x.into_iter().collect());
				}
			}
			for c in cands {
				attempts += 1;
				if attempts > 3000 {
					break;
				}
				let cand = AllocCase { ty: best.ty.clone(), text: Txt(c.into_bytes()), accessor: None };
				let mut st = allocsim::AllocStats::default();
				if let Err(v2) = allocsim::run_case(&cand, &mut st) {
					if v2.oracle == v.oracle && v2.op == v.op {
						best = cand;
						bv = v2;
						progress = true;
						break;
					}
				}
			}
			if !progress || attempts > 3000 {
				break;
			}
		}
		best.accessor = bv.op.rsplit("::").next().map(|s| s.to_string());
		let r = Replay {
			engine: "allocsim".into(),
			property: "C20".into(),
			seed,
			run,
			profile: o.profile.clone(),
			trace: None,
			iter: None,
			alloc: Some(best),
			violation: bv,
			original_steps: case.text.0.len(),
			minimise_attempts: attempts,
		};
		report_violation(o, &r);
	}
	for l in &known_lines {
		println!("{}", l);
	}
	let mut stats = allocsim::AllocStats::default();
	let mut runs = 0;
	let mut digest = 0u64;
	let mut distinct: HashSet<u64> = HashSet::new();
	for w in &workers {
		stats.merge(&w.stats);
		runs += w.runs;
		digest = digest.wrapping_add(w.digest);
		for h in &w.distinct {
			distinct.insert(*h);
		}
	}
	if total >= 100_000 && (stats.c.get("valid_inputs").copied().unwrap_or(0) < total / 4 || stats.windows < total) {
		die("vacuous batch for C20: too few valid inputs reached the accessors");
	}
	{
		let panicked = stats.c.get("accessor_panicked").copied().unwrap_or(0) + stats.c.get("constructor_panicked").copied().unwrap_or(0);
		if panicked > 0 {
			println!("note: {} constructor/accessor calls panicked inside their window and could not be judged (C20 says nothing about panics)", panicked);
		}
		if panicked > stats.windows / 5 {
			die("too many constructor/accessor calls panic for C20 to be decided");
		}
		let gr = stats.c.get("generator_rejected").copied().unwrap_or(0);
		if gr > total / 20 {
			die("the library rejects too many inputs the generator built as valid: C20 would be decided on a thinned-out input space");
		}
	}
	let wall = t0.elapsed().as_secs_f64();
	let mut samples = Vec::new();
	for run in o.from..o.from + 3.min(total) {
		let mut rng = rng::Rng::new(rng::mix(seed, 20, run));
		let mut st = allocsim::AllocStats::default();
		let c = allocsim::gen_case(&mut rng, &mut st, thorough);
		let shown = if c.text.0.len() > 200 { Txt(c.text.0[..200].to_vec()) } else { c.text.clone() };
		samples.push(json!({"type": c.ty, "input_len": c.text.0.len(), "input_prefix": shown}));
	}
	println!("runs={} windows={} distinct={} wall={:.1}s batch_digest={:016x}", runs, stats.windows, distinct.len(), wall, digest);
	if !o.no_evidence {
		let ev = json!({
			"property_id": "C20",
			"tier": o.tier,
			"seed": seed as i64,
			"level": "exploration",
			"wall_s": wall,
			"violations": 0,
			"coverage": {
				"evaluations": runs,
				"distinct_nontrivial": distinct.len(),
				"rule": "one case = (one of the 20 borrowed types, generated valid text or a corrupted/ill-formed variant); the constructor and then every read accessor of that type run each inside its own allocator window in which any request is a fault; returned slices are located relative to the input by pointer difference; non-trivial = non-empty input; distinct = distinct hash of (type, input) (hash set, capped at 2 000 000 entries per worker: a lower bound once the cap is reached)",
				"samples": samples,
				"exhaustive": false,
				"engine": "allocsim",
				"allocator_windows_opened": stats.windows,
				"simulated_time": "none: no clock in the system under test",
				"runs_per_hour": if wall > 0.0 { (runs as f64 / wall * 3600.0) as u64 } else { 0 },
				"seeds": format!("run i uses mix(VERIF_SEED={}, 20, i), i in {}..{}", seed, o.from, o.from + total),
				"faults_fired": {"allocator_windows_in_which_any_request_is_a_fault": stats.windows, "requests_observed_in_windows": 0},
				"cases_per_type": stats.per_type,
				"counters": stats.c,
				"regression_corpus_replayed": corpus_n,
				"unchecked_profile_runs_before_this_pass": unchecked_runs(),
				"batch_digest": format!("{:016x}", digest),
				"components_real": ["iref-core borrowed constructors and read accessors", "std System allocator behind the counting wrapper"],
				"components_stubbed": [],
			},
			"assumptions": [
				"allocation is observed at the #[global_allocator] seam of the harness binary; a stack-only copy would not be seen (slice identity catches that instead)",
				"count mode serves the request after recording it; replay --deny refuses it",
				"seeded sampling: a clean batch is evidence, not proof"
			]
		});
		write_json(&o.verif.join("evidence").join("C20.json"), &ev);
	}
	println!("OK property=C20 held on everything explored");
}

fn cmd_replay(o: &Opts) {
	let f = o.file.clone().unwrap_or_else(|| die("replay needs a file"));
	let s = std::fs::read_to_string(&f).unwrap_or_else(|e| die(&format!("{}: {}", f, e)));
	let r: Replay = serde_json::from_str(&s).unwrap_or_else(|e| die(&format!("{}: {}", f, e)));
	// every replay runs under the watchdog
	{
		let (tx, rx) = std::sync::mpsc::channel();
		let r2 = r.clone();
		let deny = o.deny;
		std::thread::spawn(move || {
			if deny {
				// the window flag and the deny flag are per thread
				allocsim::set_deny(true);
			}
			let _ = tx.send(exec_replay(&r2));
		});
		match rx.recv_timeout(std::time::Duration::from_secs(HANG_SECS)) {
			Ok(Ok(None)) => {
				println!("replay {}: no violation (the run completes)", f);
				std::process::exit(0);
			}
			Ok(Ok(Some(v))) => {
				println!("{}", serde_json::to_string_pretty(&v).unwrap());
				println!("VIOLATION property={} replay={}", r.property, f);
				std::process::exit(1);
			}
			Ok(Err(e)) => die(&e),
			Err(_) => {
				println!("hang reproduced: run {} still not finished after {} s", r.run, HANG_SECS);
				println!("VIOLATION property={} replay={}", r.property, f);
				std::process::exit(1);
			}
		}
	}
}

fn main() {
	let o = parse_args();
	exec::install_quiet_panic_hook();
	match o.cmd.as_str() {
		"check" | "digest" => match o.property.as_str() {
			"C04" => check_bufsim(&o, Prop::C04),
			"C10" => check_bufsim(&o, Prop::C10),
			"C11" => check_bufsim(&o, Prop::C11),
			"C12" => check_itersim(&o),
			"C20" => check_allocsim(&o),
			p => die(&format!("property {} is not claimed by this machinery", p)),
		},
		"replay" => cmd_replay(&o),
		c => die(&format!("unknown command {}", c)),
	}
}
