//! The only source of randomness in the simulator: splitmix64 seeding a
//! xoshiro256** generator. No crate, no OS entropy, no clock.

#[derive(Clone)]
pub struct Rng {
	s: [u64; 4],
}

pub fn splitmix(x: &mut u64) -> u64 {
	*x = x.wrapping_add(0x9E37_79B9_7F4A_7C15);
	let mut z = *x;
	z = (z ^ (z >> 30)).wrapping_mul(0xBF58_476D_1CE4_E5B9);
	z = (z ^ (z >> 27)).wrapping_mul(0x94D0_49BB_1331_11EB);
	z ^ (z >> 31)
}

/// Derives the per-run seed from (VERIF_SEED, engine id, run index).
pub fn mix(seed: u64, engine: u64, run: u64) -> u64 {
	let mut x = seed ^ 0xA076_1D64_78BD_642F;
	let a = splitmix(&mut x);
	x ^= engine.wrapping_mul(0xE703_7ED1_A0B4_28DB);
	let b = splitmix(&mut x);
	x ^= run.wrapping_mul(0x8EBC_6AF0_9C88_C6E3);
	let c = splitmix(&mut x);
	a ^ b.rotate_left(21) ^ c.rotate_left(42)
}

impl Rng {
	pub fn new(seed: u64) -> Self {
		let mut x = seed;
		let mut s = [0u64; 4];
		for v in s.iter_mut() {
			*v = splitmix(&mut x);
		}
		if s == [0; 4] {
			s[0] = 1;
		}
		Rng { s }
	}

	pub fn next_u64(&mut self) -> u64 {
		let r = self.s[1].wrapping_mul(5).rotate_left(7).wrapping_mul(9);
		let t = self.s[1] << 17;
		self.s[2] ^= self.s[0];
		self.s[3] ^= self.s[1];
		self.s[1] ^= self.s[2];
		self.s[0] ^= self.s[3];
		self.s[2] ^= t;
		self.s[3] = self.s[3].rotate_left(45);
		r
	}

	/// Uniform in 0..n (n > 0).
	pub fn below(&mut self, n: usize) -> usize {
		debug_assert!(n > 0);
		((self.next_u64() >> 11) % (n as u64)) as usize
	}

	/// Uniform in lo..=hi.
	pub fn range(&mut self, lo: usize, hi: usize) -> usize {
		lo + self.below(hi - lo + 1)
	}

	/// True with probability num/den.
	pub fn chance(&mut self, num: usize, den: usize) -> bool {
		self.below(den) < num
	}

	pub fn pick<'a, T>(&mut self, xs: &'a [T]) -> &'a T {
		&xs[self.below(xs.len())]
	}

	/// Index drawn proportionally to the given weights (sum > 0).
	pub fn weighted(&mut self, ws: &[u32]) -> usize {
		let total: u64 = ws.iter().map(|w| *w as u64).sum();
		debug_assert!(total > 0);
		let mut r = (self.next_u64() >> 11) % total;
		for (i, w) in ws.iter().enumerate() {
			if r < *w as u64 {
				return i;
			}
			r -= *w as u64;
		}
		ws.len() - 1
	}
}
