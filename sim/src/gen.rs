//! Grammar-directed generators of component values, hand-written from the
//! RFC 3986 / RFC 3987 ABNF. Everything returned is valid by construction for
//! the requested family; the caller still passes every value through the
//! library's checked constructor and counts rejections.

use crate::rng::Rng;

const ALPHA: &[u8] = b"abcdefghijklmnopqrstuvwxyzABCDEFGHIJKLMNOPQRSTUVWXYZ";
const DIGIT: &[u8] = b"0123456789";
const UNRES_X: &[u8] = b"-._~";
const SUB: &[u8] = b"!$&'()*+,;=";
const HEX: &[u8] = b"0123456789abcdefABCDEF";

/// A few characters from every `ucschar` block boundary and byte length.
const UCS: &[char] = &[
	'\u{A0}', '\u{E9}', '\u{7FF}', '\u{800}', '\u{6F22}', '\u{D7FF}', '\u{F900}', '\u{FDCF}',
	'\u{FDF0}', '\u{FFEF}', '\u{10000}', '\u{1FFFD}', '\u{20000}', '\u{E1000}', '\u{EFFFD}',
];
const IPRIVATE: &[char] = &['\u{E000}', '\u{F8FF}', '\u{F0000}', '\u{10FFFD}'];

/// Per-run swarm weights: which shapes are common in this run.
#[derive(Clone, Debug)]
pub struct Swarm {
	pub iri: bool,
	/// weight of multi-byte characters inside generated text (0 = never)
	pub w_multibyte: u32,
	pub w_pct: u32,
	/// segment classes: plain, empty, ".", "..", colon, at-sign
	pub w_seg: [u32; 6],
	/// size class: 0 small, 1 medium, 2 large (crosses 16 segments / 512 bytes)
	pub size: u8,
}

impl Swarm {
	pub fn draw(rng: &mut Rng, iri: bool) -> Swarm {
		let mut w_seg = [6, 3, 2, 2, 3, 1];
		// swarm: knock some classes out, boost others
		for w in w_seg.iter_mut() {
			match rng.below(5) {
				0 => *w = 0,
				1 => *w *= 4,
				_ => {}
			}
		}
		if w_seg.iter().all(|w| *w == 0) {
			w_seg[0] = 1;
		}
		let size = match rng.below(40) {
			0 => 2,
			1..=6 => 1,
			_ => 0,
		};
		Swarm {
			iri,
			w_multibyte: if iri { *rng.pick(&[0, 1, 1, 3, 8]) } else { 0 },
			w_pct: *rng.pick(&[0, 1, 1, 4]),
			w_seg,
			size,
		}
	}
}

pub struct Gen<'a> {
	pub rng: &'a mut Rng,
	pub sw: &'a Swarm,
}

#[derive(Clone, Copy, PartialEq, Eq, Debug)]
pub enum PathCtx {
	/// after an authority: path-abempty
	AfterAuthority,
	/// scheme, no authority: path-absolute / path-rootless / path-empty
	SchemeNoAuthority,
	/// no scheme, no authority: path-absolute / path-noscheme / path-empty
	Bare,
	/// stand-alone `Path`: any of the five productions
	Standalone,
}

impl<'a> Gen<'a> {
	fn push_pct(&mut self, out: &mut String) {
		// interesting escapes first
		const FIXED: &[&str] = &["%2F", "%2f", "%3A", "%40", "%FF", "%00", "%C3%A9", "%25", "%3F", "%23", "%5B"];
		if self.rng.chance(2, 3) {
			out.push_str(*self.rng.pick(FIXED));
		} else {
			out.push('%');
			out.push(*self.rng.pick(HEX) as char);
			out.push(*self.rng.pick(HEX) as char);
		}
	}

	/// One `(i)unreserved / pct-encoded / sub-delims` character, plus the
	/// extra ASCII characters allowed here.
	fn push_char(&mut self, out: &mut String, extra: &[u8]) {
		let w = [
			10u32,
			3,
			1,
			2,
			self.sw.w_pct,
			self.sw.w_multibyte,
			if extra.is_empty() { 0 } else { 2 },
		];
		match self.rng.weighted(&w) {
			0 => out.push(*self.rng.pick(&ALPHA[..8]) as char),
			1 => out.push(*self.rng.pick(DIGIT) as char),
			2 => out.push(*self.rng.pick(UNRES_X) as char),
			3 => out.push(*self.rng.pick(SUB) as char),
			4 => self.push_pct(out),
			5 => out.push(*self.rng.pick(UCS)),
			_ => out.push(*self.rng.pick(extra) as char),
		}
	}

	fn len_small(&mut self) -> usize {
		match self.sw.size {
			0 => *self.rng.pick(&[1, 1, 1, 2, 2, 3, 4]),
			1 => self.rng.range(1, 9),
			_ => {
				if self.rng.chance(1, 4) {
					self.rng.range(20, 90)
				} else {
					self.rng.range(1, 6)
				}
			}
		}
	}

	pub fn chars(&mut self, n: usize, extra: &[u8]) -> String {
		let mut s = String::new();
		for _ in 0..n {
			self.push_char(&mut s, extra);
		}
		s
	}

	pub fn scheme(&mut self) -> String {
		const COMMON: &[&str] = &["s", "http", "a+b", "A", "x-y.z", "urn", "z9"];
		if self.rng.chance(2, 3) {
			return self.rng.pick(COMMON).to_string();
		}
		let mut s = String::new();
		s.push(*self.rng.pick(ALPHA) as char);
		for _ in 0..self.rng.below(7) {
			let c = match self.rng.below(8) {
				0 => b'+',
				1 => b'-',
				2 => b'.',
				3 | 4 => *self.rng.pick(DIGIT),
				_ => *self.rng.pick(ALPHA),
			};
			s.push(c as char);
		}
		s
	}

	pub fn userinfo(&mut self) -> String {
		match self.rng.below(6) {
			0 => String::new(),
			1 => "u".into(),
			2 => {
				let a = self.len_small();
				let b = self.rng.below(3);
				format!("{}:{}", self.chars(a, b""), self.chars(b, b""))
			}
			3 => ":".into(),
			_ => {
				let n = self.len_small();
				self.chars(n, b":")
			}
		}
	}

	fn dec_octet(&mut self) -> String {
		match self.rng.below(6) {
			0 => "0".into(),
			1 => "255".into(),
			2 => self.rng.range(10, 99).to_string(),
			3 => self.rng.range(100, 199).to_string(),
			4 => self.rng.range(200, 249).to_string(),
			_ => self.rng.range(0, 9).to_string(),
		}
	}

	fn ipv4(&mut self) -> String {
		format!("{}.{}.{}.{}", self.dec_octet(), self.dec_octet(), self.dec_octet(), self.dec_octet())
	}

	fn h16(&mut self) -> String {
		let n = self.rng.range(1, 4);
		(0..n).map(|_| *self.rng.pick(HEX) as char).collect()
	}

	fn ipv6(&mut self) -> String {
		const FIXED: &[&str] = &["::", "::1", "1::", "1:2:3:4:5:6:7:8", "::1.2.3.4", "::ffff:10.0.0.1", "a::b", "1:2:3:4:5:6:7::", "fe80::1:2"];
		if self.rng.chance(1, 2) {
			return self.rng.pick(FIXED).to_string();
		}
		// general form: [ *k( h16 ":" ) h16 ] "::" n( h16 ":" ) tail, or full form.
		if self.rng.chance(1, 4) {
			let mut s = String::new();
			for _ in 0..6 {
				s.push_str(&self.h16());
				s.push(':');
			}
			if self.rng.chance(1, 2) {
				s.push_str(&self.ipv4());
			} else {
				s.push_str(&format!("{}:{}", self.h16(), self.h16()));
			}
			return s;
		}
		// "::" with `left` groups before and `right` groups after, left+right <= 7
		let left = self.rng.below(4);
		let right = self.rng.below(7 - left - if left > 0 { 0 } else { 0 }).min(6 - left);
		let mut s = String::new();
		for i in 0..left {
			if i > 0 {
				s.push(':');
			}
			s.push_str(&self.h16());
		}
		s.push_str("::");
		for i in 0..right {
			if i > 0 {
				s.push(':');
			}
			s.push_str(&self.h16());
		}
		s
	}

	pub fn host(&mut self) -> String {
		match self.rng.below(12) {
			0 => String::new(),
			1 => "h".into(),
			2 => "example.org".into(),
			3 => self.ipv4(),
			4 | 5 => format!("[{}]", self.ipv6()),
			6 => {
				// IPvFuture
				let n = self.rng.range(1, 3);
				let tail = self.chars_ascii_future(n);
				format!("[v{}.{}]", *self.rng.pick(HEX) as char, tail)
			}
			_ => {
				let n = self.len_small();
				self.chars(n, b"")
			}
		}
	}

	fn chars_ascii_future(&mut self, n: usize) -> String {
		// 1*( unreserved / sub-delims / ":" ), ASCII only even for IRIs
		let mut s = String::new();
		for _ in 0..n {
			let c = match self.rng.below(5) {
				0 => b':',
				1 => *self.rng.pick(SUB),
				2 => *self.rng.pick(UNRES_X),
				3 => *self.rng.pick(DIGIT),
				_ => *self.rng.pick(ALPHA),
			};
			s.push(c as char);
		}
		s
	}

	pub fn port(&mut self) -> String {
		match self.rng.below(6) {
			0 => String::new(),
			1 => "80".into(),
			2 => "8".into(),
			3 => (*self.rng.pick(&["65535", "65536", "0", "00080", "18446744073709551616"])).into(),
			_ => {
				let n = self.rng.range(1, 5);
				(0..n).map(|_| *self.rng.pick(DIGIT) as char).collect()
			}
		}
	}

	pub fn authority(&mut self) -> String {
		let mut s = String::new();
		if self.rng.chance(2, 5) {
			s.push_str(&self.userinfo());
			s.push('@');
		}
		s.push_str(&self.host());
		if self.rng.chance(2, 5) {
			s.push(':');
			s.push_str(&self.port());
		}
		s
	}

	/// Any `(i)segment`.
	pub fn segment(&mut self) -> String {
		let w = self.sw.w_seg;
		match self.rng.weighted(&w) {
			0 => {
				// now and then a look-alike of a dot segment
				const DOTTY: &[&str] = &["...", "a..", "..a", ".a", "a.", "%2E", "%2E%2E", ".%2e", "..%2F"];
				if self.rng.chance(1, 8) {
					return self.rng.pick(DOTTY).to_string();
				}
				let n = self.len_small();
				self.chars(n, b"")
			}
			1 => String::new(),
			2 => ".".into(),
			3 => "..".into(),
			4 => {
				// contains ':' - scheme-like or not
				const FIXED: &[&str] = &["a:b", ":", "a:", ":b", "1:b", "a+b:c", "a:b:c", "-:x", "a.b:", "x:/"];
				let mut s = self.rng.pick(FIXED).trim_end_matches('/').to_string();
				if self.rng.chance(1, 4) {
					let n = self.rng.range(1, 3);
					s = format!("{}:{}", self.chars(n, b"@"), self.chars(1, b""));
				}
				s
			}
			_ => {
				const FIXED: &[&str] = &["@", "u@h", "a@b:c"];
				self.rng.pick(FIXED).to_string()
			}
		}
	}

	/// A segment that is non-empty and has no ':' (`segment-nz-nc`).
	pub fn segment_nz_nc(&mut self) -> String {
		for _ in 0..8 {
			let s = self.segment();
			if !s.is_empty() && !s.contains(':') {
				return s;
			}
		}
		"a".into()
	}

	pub fn segment_nz(&mut self) -> String {
		for _ in 0..8 {
			let s = self.segment();
			if !s.is_empty() {
				return s;
			}
		}
		"a".into()
	}

	fn seg_count(&mut self) -> usize {
		match self.sw.size {
			0 => *self.rng.pick(&[0, 1, 1, 2, 2, 3, 4]),
			1 => self.rng.range(0, 8),
			_ => {
				if self.rng.chance(1, 2) {
					self.rng.range(15, 40)
				} else {
					self.rng.range(0, 6)
				}
			}
		}
	}

	pub fn path(&mut self, ctx: PathCtx) -> String {
		let n = self.seg_count();
		let mut s = String::new();
		match ctx {
			PathCtx::AfterAuthority => {
				// *( "/" segment )
				for _ in 0..n {
					s.push('/');
					s.push_str(&self.segment());
				}
			}
			PathCtx::SchemeNoAuthority | PathCtx::Bare | PathCtx::Standalone => {
				let form = if ctx == PathCtx::Standalone { self.rng.below(4) } else { self.rng.below(3) };
				match form {
					0 => {} // empty
					1 => {
						// path-absolute = "/" [ segment-nz *( "/" segment ) ]
						s.push('/');
						if n > 0 {
							s.push_str(&self.segment_nz());
							for _ in 1..n {
								s.push('/');
								s.push_str(&self.segment());
							}
						}
					}
					2 => {
						// rootless / noscheme
						let first = if ctx == PathCtx::Bare { self.segment_nz_nc() } else { self.segment_nz() };
						s.push_str(&first);
						for _ in 1..n.max(1) {
							s.push('/');
							s.push_str(&self.segment());
						}
					}
					_ => {
						// path-abempty (stand-alone only): may start with "//"
						for _ in 0..n {
							s.push('/');
							s.push_str(&self.segment());
						}
					}
				}
			}
		}
		s
	}

	pub fn query(&mut self) -> String {
		match self.rng.below(5) {
			0 => String::new(),
			1 => "q".into(),
			2 => "a=b&c=/d?e:f@g".into(),
			_ => {
				let n = self.len_small();
				let mut s = self.chars(n, b":@/?");
				if self.sw.iri && self.sw.w_multibyte > 0 && self.rng.chance(1, 3) {
					s.push(*self.rng.pick(IPRIVATE));
				}
				s
			}
		}
	}

	pub fn fragment(&mut self) -> String {
		match self.rng.below(5) {
			0 => String::new(),
			1 => "f".into(),
			2 => "a/b?c:d@e".into(),
			_ => {
				let n = self.len_small();
				self.chars(n, b":@/?")
			}
		}
	}

	/// A whole reference. `need_scheme`: URI/IRI (true) or reference (false).
	pub fn reference(&mut self, need_scheme: bool) -> String {
		let has_scheme = need_scheme || self.rng.chance(1, 2);
		let has_auth = self.rng.chance(1, 2);
		let mut s = String::new();
		if has_scheme {
			s.push_str(&self.scheme());
			s.push(':');
		}
		if has_auth {
			s.push_str("//");
			s.push_str(&self.authority());
			s.push_str(&self.path(PathCtx::AfterAuthority));
		} else if has_scheme {
			s.push_str(&self.path(PathCtx::SchemeNoAuthority));
		} else {
			s.push_str(&self.path(PathCtx::Bare));
		}
		if self.rng.chance(2, 5) {
			s.push('?');
			s.push_str(&self.query());
		}
		if self.rng.chance(2, 5) {
			s.push('#');
			s.push_str(&self.fragment());
		}
		s
	}
}
