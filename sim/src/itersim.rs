//! Engine `itersim` (C12): two actors, *front* and *back*, step one
//! double-ended segment iterator under a seeded schedule; the model is a
//! VecDeque of the independent '/'-split.

use std::collections::{BTreeMap, VecDeque};

use iref_core::{iri, uri};

use crate::exec::{guarded, Caught};
use crate::gen::{Gen, PathCtx, Swarm};
use crate::model::{path_segs, strip};
use crate::rng::Rng;
use crate::trace::*;

#[derive(Default, Clone)]
pub struct IterStats {
	pub c: BTreeMap<&'static str, u64>,
	/// per segment count n (capped at 12): distinct schedules seen (as bit strings)
	pub schedules: BTreeMap<usize, std::collections::BTreeSet<String>>,
}

impl IterStats {
	pub fn hit(&mut self, k: &'static str) {
		*self.c.entry(k).or_insert(0) += 1;
	}
	pub fn merge(&mut self, o: &IterStats) {
		for (k, v) in &o.c {
			*self.c.entry(k).or_insert(0) += v;
		}
		for (n, s) in &o.schedules {
			let e = self.schedules.entry(*n).or_default();
			for x in s {
				if e.len() < 5000 {
					e.insert(x.clone());
				}
			}
		}
	}
}

/// (text, offset) of every segment, by an independent split.
fn split_ranges(p: &[u8]) -> Vec<(Vec<u8>, usize)> {
	let abs = p.first() == Some(&b'/');
	let start = if abs { 1 } else { 0 };
	if p.len() == start {
		return Vec::new();
	}
	let mut out = Vec::new();
	let mut s = start;
	for i in start..=p.len() {
		if i == p.len() || p[i] == b'/' {
			out.push((p[s..i].to_vec(), s));
			s = i + 1;
		}
	}
	out
}

fn fail(oracle: &str, step: usize, op: &str, message: String, path: &str, expected: Option<Vec<u8>>, observed: Option<Vec<u8>>) -> Violation {
	Violation {
		property: "C12".into(),
		oracle: oracle.into(),
		step,
		op_index: None,
		op: op.into(),
		message,
		pre: Some(Txt(path.as_bytes().to_vec())),
		expected: expected.map(Txt),
		observed: observed.map(Txt),
		signature: Some(Signature {
			oracle: oracle.into(),
			op: op.into(),
			pre: crate::bufsim::path_class(path.as_bytes()).to_string(),
			arg: String::new(),
		}),
	}
}

macro_rules! run_family {
	($fam:ident, $conv:expr, $case:expr) => {{
		let case: &IterCase = $case;
		let text = case.path.as_str();
		let bytes = text.as_bytes();
		let p = match $fam::Path::new($conv(text)) {
			Ok(p) => p,
			Err(_) => return Err(()),
		};
		let base = p.as_bytes().as_ptr() as usize;
		let model_all = split_ranges(bytes);
		if !case.normalized {
			let mut model: VecDeque<(Vec<u8>, usize)> = model_all.iter().cloned().collect();
			let mut it = p.segments();
			for (k, c) in case.schedule.bytes().enumerate() {
				let front = c == b'F';
				let got = if front { it.next() } else { it.next_back() };
				let want = if front { model.pop_front() } else { model.pop_back() };
				let opn = if front { "next" } else { "next_back" };
				match (got, want) {
					(None, None) => {}
					(Some(g), Some((wt, wo))) => {
						let gb = g.as_bytes();
						let off = (gb.as_ptr() as usize).wrapping_sub(base);
						if gb != &wt[..] {
							return Ok(Some(fail("item_text", k, opn, format!("step {} ({}) yielded the wrong segment", k, opn), text, Some(wt), Some(gb.to_vec()))));
						}
						// where a piece comes from is judged only when it is a slice of the path itself:
						// a fixed constant with the right text (e.g. a static empty segment) is C20's business
						let inside = off <= bytes.len() && off + gb.len() <= bytes.len();
						if inside && off != wo {
							return Ok(Some(fail("item_position", k, opn, format!("step {} ({}) yielded the right text from offset {} instead of {}", k, opn, off, wo), text, Some(wt), Some(gb.to_vec()))));
						}
					}
					(Some(g), None) => {
						return Ok(Some(fail("extra_item", k, opn, format!("step {} ({}) yielded a segment after every segment had been yielded", k, opn), text, None, Some(g.as_bytes().to_vec()))));
					}
					(None, Some((wt, _))) => {
						return Ok(Some(fail("missing_item", k, opn, format!("step {} ({}) yielded None while segments remain", k, opn), text, Some(wt), None)));
					}
				}
			}
		} else {
			// self-consistency of the double-ended normalized iterator + len()
			let reference: Vec<(usize, usize)> = p.normalized_segments().map(|s| ((s.as_bytes().as_ptr() as usize).wrapping_sub(base), s.as_bytes().len())).collect();
			let mut model: VecDeque<(usize, usize)> = reference.iter().cloned().collect();
			let mut it = p.normalized_segments();
			if it.len() != model.len() {
				return Ok(Some(fail("normalized_len", 0, "len", format!("normalized_segments().len() = {} but it yields {} items", it.len(), model.len()), text, None, None)));
			}
			// "the length reported by the normalized-segment iterator is consistent with that
			// sequence": dot-segment removal on the independent '/'-split, segment by segment as
			// C09 words it ('.' dropped; '..' removes the previous segment, is kept when the path
			// is relative and nothing is left to remove, is dropped at the root of an absolute
			// path) leaves this many segments. (This is the segment-wise rule, not the textual
			// rendering of RFC 3986 5.2.4, which adds a trailing empty segment after a final dot
			// segment.)
			let want_len = {
				let abs = bytes.first() == Some(&b'/');
				let mut stack: Vec<&[u8]> = Vec::new();
				for (t, _) in &model_all {
					match t.as_slice() {
						b"." => {}
						b".." => {
							let nothing_to_remove = stack.last().map(|s| *s == b"..").unwrap_or(true);
							if nothing_to_remove {
								if !abs {
									stack.push(b"..");
								}
							} else {
								stack.pop();
							}
						}
						x => stack.push(x),
					}
				}
				stack.len()
			};
			if it.len() != want_len {
				return Ok(Some(fail("normalized_len_vs_split", 0, "len", format!("normalized_segments().len() = {} but removing dot segments from the '/'-split leaves {}", it.len(), want_len), text, None, None)));
			}
			for (k, c) in case.schedule.bytes().enumerate() {
				let front = c == b'F';
				let got = if front { it.next() } else { it.next_back() };
				let want = if front { model.pop_front() } else { model.pop_back() };
				let opn = if front { "normalized.next" } else { "normalized.next_back" };
				let gotr = got.map(|s| ((s.as_bytes().as_ptr() as usize).wrapping_sub(base), s.as_bytes().len()));
				if gotr != want {
					return Ok(Some(fail("normalized_item", k, opn, format!("step {} ({}) yielded {:?}, the forward pass has {:?} there", k, opn, gotr, want), text, None, None)));
				}
				if it.len() != model.len() {
					return Ok(Some(fail("normalized_len", k, opn, format!("after step {} len() = {} but {} items remain", k, it.len(), model.len()), text, None, None)));
				}
			}
		}
		// derived queries, on the same path
		let segs: Vec<Vec<u8>> = model_all.iter().map(|(t, _)| t.clone()).collect();
		let abs = bytes.first() == Some(&b'/');
		macro_rules! q {
			($name:expr, $got:expr, $want:expr) => {{
				let g = $got;
				let w = $want;
				if g != w {
					return Ok(Some(fail($name, 0, $name, format!("{}() disagrees with the '/'-split: got {:?}, split says {:?}", $name, g, w), text, None, None)));
				}
			}};
		}
		q!("is_empty", p.is_empty(), segs.is_empty());
		q!("is_absolute", p.is_absolute(), abs);
		q!("is_relative", p.is_relative(), !abs);
		q!("segment_count", p.segment_count(), segs.len());
		q!("first", p.first().map(|s| s.as_bytes().to_vec()), segs.first().cloned());
		q!("last", p.last().map(|s| s.as_bytes().to_vec()), segs.last().cloned());
		q!("file_name", p.file_name().map(|s| s.as_bytes().to_vec()), segs.last().filter(|s| !s.is_empty()).cloned());
		let dir_want: Vec<u8> = match bytes.iter().rposition(|b| *b == b'/') {
			Some(i) => bytes[..=i].to_vec(),
			None => Vec::new(),
		};
		q!("directory", p.directory().as_bytes().to_vec(), dir_want);
		// joining the forward iteration reproduces the path
		{
			let mut j: Vec<u8> = Vec::new();
			if abs {
				j.push(b'/');
			}
			for (i, s) in p.segments().enumerate() {
				if i > 0 {
					j.push(b'/');
				}
				j.extend_from_slice(s.as_bytes());
			}
			// "/" + [] and "" + [] both fine; a non-empty list must reproduce the text
			if !segs.is_empty() || !p.segments().next().is_none() {
				q!("join", j, bytes.to_vec());
			}
		}
		// parent: the same sequence minus its last segment, same absoluteness (modulo shield)
		let par = p.parent().map(|q| q.as_bytes().to_vec());
		let par_ok = match &par {
			None => segs.is_empty() || (!abs && segs.len() == 1),
			Some(q) => {
				if segs.is_empty() {
					false
				} else {
					let (qa, qs) = path_segs(q);
					qa == abs && strip(&qs) == strip(&segs[..segs.len() - 1])
				}
			}
		};
		if !par_ok {
			return Ok(Some(fail("parent", 0, "parent", format!("parent() = {:?} is not the path without its last segment", par.as_ref().map(|x| String::from_utf8_lossy(x).into_owned())), text, None, par)));
		}
		let poe = p.parent_or_empty().as_bytes().to_vec();
		let poe_want: Vec<u8> = match &par {
			Some(q) => q.clone(),
			None => {
				if abs {
					b"/".to_vec()
				} else {
					Vec::new()
				}
			}
		};
		q!("parent_or_empty", poe, poe_want);
		Ok(None)
	}};
}

fn conv_str(s: &str) -> &str {
	s
}
fn conv_bytes(s: &str) -> &[u8] {
	s.as_bytes()
}

fn run_iri(case: &IterCase) -> Result<Option<Violation>, ()> {
	run_family!(iri, conv_str, case)
}
fn run_uri(case: &IterCase) -> Result<Option<Violation>, ()> {
	run_family!(uri, conv_bytes, case)
}

/// Executes one case. `Err(())`: the path is not valid for the family.
pub fn run_case(case: &IterCase) -> Result<Option<Violation>, ()> {
	let r = guarded(|| if case.iri { run_iri(case) } else { run_uri(case) });
	match r {
		Caught::Ok(r) => r,
		Caught::Panic(m) => Ok(Some(fail("panic", 0, "iterate", format!("panicked: {}", m), &case.path, None, None))),
		Caught::Injected => unreachable!(),
	}
}

pub fn gen_case(rng: &mut Rng, stats: &mut IterStats) -> IterCase {
	let iri = rng.chance(1, 2);
	let sw = Swarm::draw(rng, iri);
	let path = {
		let mut g = Gen { rng, sw: &sw };
		if g.rng.chance(1, 1200) {
			// far beyond any inline buffer: hundreds to thousands of segments
			let n = g.rng.range(100, 3000);
			let mut s = String::from(*g.rng.pick(&["", "/", "//"]));
			for i in 0..n {
				if i > 0 {
					s.push('/');
				}
				s.push_str(&g.segment());
			}
			s
		} else {
			g.path(PathCtx::Standalone)
		}
	};
	let n = split_ranges(path.as_bytes()).len();
	let steps = n + 3;
	// swarm over scheduling policies
	let policy = rng.below(6);
	let mut schedule = String::with_capacity(steps);
	let bias = rng.range(1, 9);
	for k in 0..steps {
		let f = match policy {
			0 => true,
			1 => false,
			2 => k % 2 == 0,
			3 => k % 2 == 1,
			_ => rng.chance(bias, 10),
		};
		schedule.push(if f { 'F' } else { 'B' });
	}
	let normalized = rng.chance(1, 4);
	stats.hit(if normalized { "normalized_cases" } else { "segments_cases" });
	if n <= 12 && !normalized {
		let e = stats.schedules.entry(n).or_default();
		if e.len() < 5000 {
			e.insert(schedule[..n].to_string());
		}
	}
	if n > 16 {
		stats.hit("probe_more_than_16_segments");
	}
	if !path.is_ascii() {
		stats.hit("probe_multibyte");
	}
	if path.contains("//") {
		stats.hit("probe_consecutive_empty_segments");
	}
	if path.ends_with('/') && path.len() > 1 {
		stats.hit("probe_trailing_empty_segment");
	}
	if path.starts_with("//") {
		stats.hit("probe_leading_empty_segment");
	}
	IterCase { iri, path, schedule, normalized }
}

pub fn minimise(case: &IterCase, orig: &Violation) -> (IterCase, Violation, usize) {
	let mut best = case.clone();
	let mut bv = orig.clone();
	let mut attempts = 0;
	loop {
		let mut progress = false;
		let mut cands: Vec<IterCase> = Vec::new();
		// shorter schedule
		if !best.schedule.is_empty() {
			let mut c = best.clone();
			c.schedule.pop();
			cands.push(c);
		}
		// fewer segments / shorter segments
		let parts: Vec<&str> = best.path.split('/').collect();
		for i in 0..parts.len() {
			let mut p = parts.clone();
			p.remove(i);
			let mut c = best.clone();
			c.path = p.join("/");
			cands.push(c);
		}
		let cs: Vec<char> = best.path.chars().collect();
		if cs.len() <= 60 {
			for i in 0..cs.len() {
				let mut x = cs.clone();
				x.remove(i);
				let mut c = best.clone();
				c.path = x.into_iter().collect();
				cands.push(c);
			}
		}
		if best.iri && best.path.is_ascii() {
			let mut c = best.clone();
			c.iri = false;
			cands.push(c);
		}
		for c in cands {
			attempts += 1;
			if attempts > 4000 {
				break;
			}
			if let Ok(Some(v)) = run_case(&c) {
				if v.oracle == orig.oracle {
					best = c;
					bv = v;
					progress = true;
					break;
				}
			}
		}
		if !progress || attempts > 4000 {
			break;
		}
	}
	(best, bv, attempts)
}
