//! Engine `itersim` (C12): two actors, *front* and *back*, step one
//! double-ended segment iterator under a seeded schedule; the model is a
//! VecDeque of the independent '/'-split.

use std::collections::{BTreeMap, VecDeque};

use iref_core::{iri, uri};

use crate::exec::{guarded, Caught};
use crate::gen::{Gen, PathCtx, Swarm};
use crate::model::{path_segs, strip};
use crate::rng::Rng;
use crate::trace::*;

#[derive(Default, Clone)]
pub struct IterStats {
	pub c: BTreeMap<&'static str, u64>,
	/// per segment count n (capped at 12): distinct schedules seen (as bit strings)
	pub schedules: BTreeMap<usize, std::collections::BTreeSet<String>>,
}

impl IterStats {
	pub fn hit(&mut self, k: &'static str) {
		*self.c.entry(k).or_insert(0) += 1;
	}
	pub fn merge(&mut self, o: &IterStats) {
		for (k, v) in &o.c {
			*self.c.entry(k).or_insert(0) += v;
		}
		for (n, s) in &o.schedules {
			let e = self.schedules.entry(*n).or_default();
			for x in s {
				if e.len() < 5000 {
					e.insert(x.clone());
				}
			}
		}
	}
}

/// (text, offset) of every segment, by an independent split.
fn split_ranges(p: &[u8]) -> Vec<(Vec<u8>, usize)> {
	let abs = p.first() == Some(&b'/');
	let start = if abs { 1 } else { 0 };
	if p.len() == start {
		return Vec::new();
	}
	let mut out = Vec::new();
	let mut s = start;
	for i in start..=p.len() {
		if i == p.len() || p[i] == b'/' {
			out.push((p[s..i].to_vec(), s));
			s = i + 1;
		}
	}
	out
}

fn fail(oracle: &str, step: usize, op: &str, message: String, path: &str, expected: Option<Vec<u8>>, observed: Option<Vec<u8>>) -> Violation {
	Violation {
		property: "C12".into(),
		oracle: oracle.into(),
		step,
		op_index: None,
		op: op.into(),
		message,
		pre: Some(Txt(path.as_bytes().to_vec())),
		expected: expected.map(Txt),
		observed: observed.map(Txt),
		signature: Some(Signature {
			oracle: oracle.into(),
			op: op.into(),
			pre: crate::bufsim::path_class(path.as_bytes()).to_string(),
			arg: String::new(),
		}),
	}
}

macro_rules! run_family {
	($fam:ident, $conv:expr, $case:expr) => {{
		let case: &IterCase = $case;
		let text = case.path.as_str();
		let bytes = text.as_bytes();
		let p = match $fam::Path::new($conv(text)) {
			Ok(p) => p,
			Err(_) => return Err(()),
		};
		let base = p.as_bytes().as_ptr() as usize;
		let model_all = split_ranges(bytes);
		if !case.normalized {
			let mut model: VecDeque<(Vec<u8>, usize)> = model_all.iter().cloned().collect();
			// two routes to the same iterator: segments() and IntoIterator for &Path
			let mut it = if case.schedule.starts_with('I') { p.into_iter() } else { p.segments() };
			// one yielded item against one model item: text, and position when it is a slice of the path
			let cmp = |k: usize, opn: &str, got: Option<&[u8]>, want: Option<(Vec<u8>, usize)>| -> Option<Violation> {
				match (got, want) {
					(None, None) => None,
					(Some(gb), Some((wt, wo))) => {
						let off = (gb.as_ptr() as usize).wrapping_sub(base);
						if gb != &wt[..] {
							return Some(fail("item_text", k, opn, format!("step {} ({}) yielded the wrong segment", k, opn), text, Some(wt), Some(gb.to_vec())));
						}
						// where a piece comes from is judged only when it is a slice of the path itself:
						// a fixed constant with the right text (e.g. a static empty segment) is C20's business
						let inside = off <= bytes.len() && off + gb.len() <= bytes.len();
						if inside && off != wo {
							return Some(fail("item_position", k, opn, format!("step {} ({}) yielded the right text from offset {} instead of {}", k, opn, off, wo), text, Some(wt), Some(gb.to_vec())));
						}
						None
					}
					(Some(g), None) => Some(fail("extra_item", k, opn, format!("step {} ({}) yielded a segment after every segment had been yielded", k, opn), text, None, Some(g.to_vec()))),
					(None, Some((wt, _))) => Some(fail("missing_item", k, opn, format!("step {} ({}) yielded None while segments remain", k, opn), text, Some(wt), None)),
				}
			};
			for (k, c) in case.schedule.bytes().enumerate() {
				match c {
					b'I' => {}
					b'F' | b'B' => {
						let front = c == b'F';
						let got = if front { it.next() } else { it.next_back() };
						let want = if front { model.pop_front() } else { model.pop_back() };
						let opn = if front { "next" } else { "next_back" };
						if let Some(v) = cmp(k, opn, got.map(|g| g.as_bytes()), want) {
							return Ok(Some(v));
						}
					}
					// compound steps of the Iterator / DoubleEndedIterator interface: each is a fixed
					// number of front or back steps, so it must agree with that many single steps
					b'f' | b'g' => {
						let n = if c == b'f' { 1 } else { 2 };
						let overshoot = model.len() < n + 1;
						let got = it.nth(n);
						for _ in 0..n {
							model.pop_front();
						}
						let want = model.pop_front();
						if let Some(v) = cmp(k, "nth", got.map(|g| g.as_bytes()), want) {
							return Ok(Some(v));
						}
						// nth(k) beyond what remains must yield None; whether it also has to leave the
						// iterator exhausted is the trait's convention, not C12's text: nothing further
						// is demanded of this iterator
						if overshoot {
							break;
						}
					}
					b'b' | b'c' => {
						let n = if c == b'b' { 1 } else { 2 };
						let overshoot = model.len() < n + 1;
						let got = it.nth_back(n);
						for _ in 0..n {
							model.pop_back();
						}
						let want = model.pop_back();
						if let Some(v) = cmp(k, "nth_back", got.map(|g| g.as_bytes()), want) {
							return Ok(Some(v));
						}
						if overshoot {
							break;
						}
					}
					// consuming steps: they take the iterator itself (not by_ref(), which would bypass an
					// overriding implementation), so they end the schedule
					b'C' => {
						let got = it.count();
						if got != model.len() {
							return Ok(Some(fail("count", k, "count", format!("step {}: count() of the rest = {} but {} segments remain", k, got, model.len()), text, None, None)));
						}
						break;
					}
					b'L' => {
						let got = it.last();
						let want = model.back().cloned();
						if let Some(v) = cmp(k, "last", got.map(|g| g.as_bytes()), want) {
							return Ok(Some(v));
						}
						break;
					}
					b'A' | b'R' | b'O' => {
						let fwd = c != b'R';
						let opn = match c {
							b'A' => "collect",
							b'R' => "rev.collect",
							_ => "fold",
						};
						let got: Vec<&[u8]> = match c {
							b'A' => it.map(|g| g.as_bytes()).collect(),
							b'R' => it.rev().map(|g| g.as_bytes()).collect(),
							_ => it.fold(Vec::new(), |mut v, g| {
								v.push(g.as_bytes());
								v
							}),
						};
						let mut i = 0;
						loop {
							let want = if fwd { model.pop_front() } else { model.pop_back() };
							let g = got.get(i).copied();
							if g.is_none() && want.is_none() {
								break;
							}
							if let Some(v) = cmp(k, opn, g, want) {
								return Ok(Some(v));
							}
							i += 1;
						}
						break;
					}
					_ => return Err(()),
				}
			}
		} else {
			// self-consistency of the double-ended normalized iterator + len()
			let reference: Vec<(usize, usize)> = p.normalized_segments().map(|s| ((s.as_bytes().as_ptr() as usize).wrapping_sub(base), s.as_bytes().len())).collect();
			let mut model: VecDeque<(usize, usize)> = reference.iter().cloned().collect();
			let mut it = p.normalized_segments();
			if it.len() != model.len() {
				return Ok(Some(fail("normalized_len", 0, "len", format!("normalized_segments().len() = {} but it yields {} items", it.len(), model.len()), text, None, None)));
			}
			// "the length reported by the normalized-segment iterator is consistent with that
			// sequence": dot-segment removal on the independent '/'-split, segment by segment as
			// C09 words it ('.' dropped; '..' removes the previous segment, is kept when the path
			// is relative and nothing is left to remove, is dropped at the root of an absolute
			// path) leaves this many segments. (This is the segment-wise rule, not the textual
			// rendering of RFC 3986 5.2.4, which adds a trailing empty segment after a final dot
			// segment.)
			let want_len = {
				let abs = bytes.first() == Some(&b'/');
				let mut stack: Vec<&[u8]> = Vec::new();
				for (t, _) in &model_all {
					match t.as_slice() {
						b"." => {}
						b".." => {
							let nothing_to_remove = stack.last().map(|s| *s == b"..").unwrap_or(true);
							if nothing_to_remove {
								if !abs {
									stack.push(b"..");
								}
							} else {
								stack.pop();
							}
						}
						x => stack.push(x),
					}
				}
				stack.len()
			};
			if it.len() != want_len {
				return Ok(Some(fail("normalized_len_vs_split", 0, "len", format!("normalized_segments().len() = {} but removing dot segments from the '/'-split leaves {}", it.len(), want_len), text, None, None)));
			}
			let rng_of = |s: &[u8]| ((s.as_ptr() as usize).wrapping_sub(base), s.len());
			for (k, c) in case.schedule.bytes().enumerate() {
				let (opn, gotr, want): (&str, Option<(usize, usize)>, Option<(usize, usize)>) = match c {
					b'I' => continue,
					b'F' => ("normalized.next", it.next().map(|s| rng_of(s.as_bytes())), model.pop_front()),
					b'B' => ("normalized.next_back", it.next_back().map(|s| rng_of(s.as_bytes())), model.pop_back()),
					b'f' | b'g' => {
						let n = if c == b'f' { 1 } else { 2 };
						let overshoot = model.len() < n + 1;
						let g = it.nth(n).map(|s| rng_of(s.as_bytes()));
						if overshoot {
							// see above: only the None is demanded
							if g.is_some() {
								return Ok(Some(fail("normalized_item", k, "normalized.nth", format!("step {}: nth({}) yielded an item although only {} remain", k, n, model.len()), text, None, None)));
							}
							break;
						}
						for _ in 0..n {
							model.pop_front();
						}
						("normalized.nth", g, model.pop_front())
					}
					b'b' | b'c' => {
						let n = if c == b'b' { 1 } else { 2 };
						let overshoot = model.len() < n + 1;
						let g = it.nth_back(n).map(|s| rng_of(s.as_bytes()));
						if overshoot {
							if g.is_some() {
								return Ok(Some(fail("normalized_item", k, "normalized.nth_back", format!("step {}: nth_back({}) yielded an item although only {} remain", k, n, model.len()), text, None, None)));
							}
							break;
						}
						for _ in 0..n {
							model.pop_back();
						}
						("normalized.nth_back", g, model.pop_back())
					}
					b'C' => {
						let got = it.count();
						if got != model.len() {
							return Ok(Some(fail("normalized_count", k, "normalized.count", format!("step {}: count() of the rest = {} but {} items remain", k, got, model.len()), text, None, None)));
						}
						break;
					}
					b'L' => {
						let g = it.last().map(|s| rng_of(s.as_bytes()));
						let w = model.back().cloned();
						if g != w {
							return Ok(Some(fail("normalized_item", k, "normalized.last", format!("step {}: last() yielded {:?}, the forward pass has {:?} there", k, g, w), text, None, None)));
						}
						break;
					}
					b'A' | b'R' | b'O' => {
						let got: Vec<(usize, usize)> = match c {
							b'A' => it.map(|s| rng_of(s.as_bytes())).collect(),
							b'R' => it.rev().map(|s| rng_of(s.as_bytes())).collect(),
							_ => it.fold(Vec::new(), |mut v, s| {
								v.push(rng_of(s.as_bytes()));
								v
							}),
						};
						let want: Vec<(usize, usize)> = if c != b'R' { model.drain(..).collect() } else { model.drain(..).rev().collect() };
						if got != want {
							return Ok(Some(fail("normalized_item", k, "normalized.collect", format!("step {}: the rest collected as {:?}, the forward pass has {:?}", k, got, want), text, None, None)));
						}
						break;
					}
					_ => return Err(()),
				};
				if gotr != want {
					return Ok(Some(fail("normalized_item", k, opn, format!("step {} ({}) yielded {:?}, the forward pass has {:?} there", k, opn, gotr, want), text, None, None)));
				}
				if it.len() != model.len() {
					return Ok(Some(fail("normalized_len", k, opn, format!("after step {} len() = {} but {} items remain", k, it.len(), model.len()), text, None, None)));
				}
			}
		}
		// derived queries, on the same path
		let segs: Vec<Vec<u8>> = model_all.iter().map(|(t, _)| t.clone()).collect();
		let abs = bytes.first() == Some(&b'/');
		macro_rules! q {
			($name:expr, $got:expr, $want:expr) => {{
				let g = $got;
				let w = $want;
				if g != w {
					return Ok(Some(fail($name, 0, $name, format!("{}() disagrees with the '/'-split: got {:?}, split says {:?}", $name, g, w), text, None, None)));
				}
			}};
		}
		q!("is_empty", p.is_empty(), segs.is_empty());
		q!("is_absolute", p.is_absolute(), abs);
		q!("is_relative", p.is_relative(), !abs);
		q!("segment_count", p.segment_count(), segs.len());
		q!("first", p.first().map(|s| s.as_bytes().to_vec()), segs.first().cloned());
		q!("last", p.last().map(|s| s.as_bytes().to_vec()), segs.last().cloned());
		q!("file_name", p.file_name().map(|s| s.as_bytes().to_vec()), segs.last().filter(|s| !s.is_empty()).cloned());
		let dir_want: Vec<u8> = match bytes.iter().rposition(|b| *b == b'/') {
			Some(i) => bytes[..=i].to_vec(),
			None => Vec::new(),
		};
		q!("directory", p.directory().as_bytes().to_vec(), dir_want);
		// joining the forward iteration reproduces the path
		{
			let mut j: Vec<u8> = Vec::new();
			if abs {
				j.push(b'/');
			}
			for (i, s) in p.segments().enumerate() {
				if i > 0 {
					j.push(b'/');
				}
				j.extend_from_slice(s.as_bytes());
			}
			// "/" + [] and "" + [] both fine; a non-empty list must reproduce the text
			if !segs.is_empty() || !p.segments().next().is_none() {
				q!("join", j, bytes.to_vec());
			}
		}
		// parent: the same sequence minus its last segment, same absoluteness (modulo shield)
		let par = p.parent().map(|q| q.as_bytes().to_vec());
		let par_ok = match &par {
			None => segs.is_empty() || (!abs && segs.len() == 1),
			Some(q) => {
				if segs.is_empty() {
					false
				} else {
					let (qa, qs) = path_segs(q);
					qa == abs && strip(&qs) == strip(&segs[..segs.len() - 1])
				}
			}
		};
		if !par_ok {
			return Ok(Some(fail("parent", 0, "parent", format!("parent() = {:?} is not the path without its last segment", par.as_ref().map(|x| String::from_utf8_lossy(x).into_owned())), text, None, par)));
		}
		let poe = p.parent_or_empty().as_bytes().to_vec();
		let poe_want: Vec<u8> = match &par {
			Some(q) => q.clone(),
			None => {
				if abs {
					b"/".to_vec()
				} else {
					Vec::new()
				}
			}
		};
		q!("parent_or_empty", poe, poe_want);
		Ok(None)
	}};
}

fn conv_str(s: &str) -> &str {
	s
}
fn conv_bytes(s: &str) -> &[u8] {
	s.as_bytes()
}

fn run_iri(case: &IterCase) -> Result<Option<Violation>, ()> {
	run_family!(iri, conv_str, case)
}
fn run_uri(case: &IterCase) -> Result<Option<Violation>, ()> {
	run_family!(uri, conv_bytes, case)
}

/// Executes one case. `Err(())`: the path is not valid for the family.
pub fn run_case(case: &IterCase) -> Result<Option<Violation>, ()> {
	let r = guarded(|| if case.iri { run_iri(case) } else { run_uri(case) });
	match r {
		Caught::Ok(r) => r,
		Caught::Panic(m) => Ok(Some(fail("panic", 0, "iterate", format!("panicked: {}", m), &case.path, None, None))),
		Caught::Injected => unreachable!(),
	}
}

pub fn gen_case(rng: &mut Rng, stats: &mut IterStats) -> IterCase {
	let iri = rng.chance(1, 2);
	let sw = Swarm::draw(rng, iri);
	let path = {
		let mut g = Gen { rng, sw: &sw };
		if g.rng.chance(1, 1200) {
			// far beyond any inline buffer: hundreds to thousands of segments
			let n = g.rng.range(100, 3000);
			let mut s = String::from(*g.rng.pick(&["", "/", "//"]));
			for i in 0..n {
				if i > 0 {
					s.push('/');
				}
				s.push_str(&g.segment());
			}
			s
		} else {
			g.path(PathCtx::Standalone)
		}
	};
	let n = split_ranges(path.as_bytes()).len();
	let steps = n + 3;
	// swarm over scheduling policies
	let policy = rng.below(6);
	let mut schedule = String::with_capacity(steps);
	let bias = rng.range(1, 9);
	// one case in three also schedules compound steps (nth, nth_back and, ending the
	// schedule, the consuming count, last, collect, rev().collect, fold) and one in eight obtains the iterator through IntoIterator
	let compound = rng.chance(1, 3);
	let compound_rate = rng.range(1, 4);
	if rng.chance(1, 8) {
		schedule.push('I');
	}
	for k in 0..steps {
		if compound && rng.chance(compound_rate, 8) {
			let c = *rng.pick(&['f', 'g', 'b', 'c', 'f', 'b', 'f', 'b', 'C', 'L', 'A', 'R', 'O']);
			schedule.push(c);
			stats.hit(match c {
				'f' | 'g' => "step_nth",
				'b' | 'c' => "step_nth_back",
				'C' => "step_count",
				'L' => "step_last",
				'A' => "step_collect",
				'O' => "step_fold",
				_ => "step_rev_collect",
			});
			if matches!(c, 'C' | 'L' | 'A' | 'R' | 'O') {
				break;
			}
			continue;
		}
		let f = match policy {
			0 => true,
			1 => false,
			2 => k % 2 == 0,
			3 => k % 2 == 1,
			_ => rng.chance(bias, 10),
		};
		schedule.push(if f { 'F' } else { 'B' });
	}
	let normalized = rng.chance(1, 4);
	stats.hit(if normalized { "normalized_cases" } else { "segments_cases" });
	if compound {
		stats.hit("cases_with_compound_steps");
	}
	// the route flag only means something on a segments() case
	if schedule.starts_with('I') && !normalized {
		stats.hit("route_into_iter");
	}
	if n <= 12 && !normalized && schedule.len() >= n && schedule.bytes().all(|c| c == b'F' || c == b'B') {
		let e = stats.schedules.entry(n).or_default();
		if e.len() < 5000 {
			e.insert(schedule[..n].to_string());
		}
	}
	if n > 16 {
		stats.hit("probe_more_than_16_segments");
	}
	if !path.is_ascii() {
		stats.hit("probe_multibyte");
	}
	if path.contains("//") {
		stats.hit("probe_consecutive_empty_segments");
	}
	if path.ends_with('/') && path.len() > 1 {
		stats.hit("probe_trailing_empty_segment");
	}
	if path.starts_with("//") {
		stats.hit("probe_leading_empty_segment");
	}
	IterCase { iri, path, schedule, normalized }
}

pub fn minimise(case: &IterCase, orig: &Violation) -> (IterCase, Violation, usize) {
	let mut best = case.clone();
	let mut bv = orig.clone();
	let mut attempts = 0;
	loop {
		let mut progress = false;
		let mut cands: Vec<IterCase> = Vec::new();
		// shorter schedule
		if !best.schedule.is_empty() {
			let mut c = best.clone();
			c.schedule.pop();
			cands.push(c);
		}
		// drop any one step; turn a compound step into a single one; the plain route
		if best.schedule.len() <= 40 {
			let sc: Vec<char> = best.schedule.chars().collect();
			for i in 0..sc.len() {
				let mut x = sc.clone();
				x.remove(i);
				let mut c = best.clone();
				c.schedule = x.into_iter().collect();
				cands.push(c);
				if !matches!(sc[i], 'F' | 'B' | 'I') {
					for r in ['F', 'B'] {
						let mut x = sc.clone();
						x[i] = r;
						let mut c = best.clone();
						c.schedule = x.into_iter().collect();
						cands.push(c);
					}
				}
			}
		}
		// fewer segments / shorter segments
		let parts: Vec<&str> = best.path.split('/').collect();
		for i in 0..parts.len() {
			let mut p = parts.clone();
			p.remove(i);
			let mut c = best.clone();
			c.path = p.join("/");
			cands.push(c);
		}
		let cs: Vec<char> = best.path.chars().collect();
		if cs.len() <= 60 {
			for i in 0..cs.len() {
				let mut x = cs.clone();
				x.remove(i);
				let mut c = best.clone();
				c.path = x.into_iter().collect();
				cands.push(c);
			}
		}
		if best.iri && best.path.is_ascii() {
			let mut c = best.clone();
			c.iri = false;
			cands.push(c);
		}
		for c in cands {
			attempts += 1;
			if attempts > 4000 {
				break;
			}
			if let Ok(Some(v)) = run_case(&c) {
				if v.oracle == orig.oracle {
					best = c;
					bv = v;
					progress = true;
					break;
				}
			}
		}
		if !progress || attempts > 4000 {
			break;
		}
	}
	(best, bv, attempts)
}
