//! Text-level reference model. Shares no code with iref's scanners and never
//! calls an iref accessor.

use std::ops::Range;

#[derive(Debug, Clone, PartialEq, Eq)]
pub struct Split5 {
	pub scheme: Option<Range<usize>>,
	pub authority: Option<Range<usize>>,
	pub path: Range<usize>,
	pub query: Option<Range<usize>>,
	pub fragment: Option<Range<usize>>,
}

/// RFC 3986 Appendix B:
/// `^(([^:/?#]+):)?(//([^/?#]*))?([^?#]*)(\?([^#]*))?(#(.*))?`
pub fn split5(t: &[u8]) -> Split5 {
	let n = t.len();
	let mut i = 0;
	// scheme
	let mut scheme = None;
	let mut j = 0;
	while j < n && !matches!(t[j], b':' | b'/' | b'?' | b'#') {
		j += 1;
	}
	if j > 0 && j < n && t[j] == b':' {
		scheme = Some(0..j);
		i = j + 1;
	}
	// authority
	let mut authority = None;
	if i + 1 < n && t[i] == b'/' && t[i + 1] == b'/' {
		let s = i + 2;
		let mut e = s;
		while e < n && !matches!(t[e], b'/' | b'?' | b'#') {
			e += 1;
		}
		authority = Some(s..e);
		i = e;
	}
	// path
	let ps = i;
	while i < n && !matches!(t[i], b'?' | b'#') {
		i += 1;
	}
	let path = ps..i;
	// query
	let mut query = None;
	if i < n && t[i] == b'?' {
		let s = i + 1;
		let mut e = s;
		while e < n && t[e] != b'#' {
			e += 1;
		}
		query = Some(s..e);
		i = e;
	}
	let mut fragment = None;
	if i < n && t[i] == b'#' {
		fragment = Some((i + 1)..n);
	}
	Split5 {
		scheme,
		authority,
		path,
		query,
		fragment,
	}
}

impl Split5 {
	pub fn get<'a>(&self, t: &'a [u8], r: &Option<Range<usize>>) -> Option<&'a [u8]> {
		r.as_ref().map(|r| &t[r.clone()])
	}
	pub fn scheme<'a>(&self, t: &'a [u8]) -> Option<&'a [u8]> {
		self.get(t, &self.scheme)
	}
	pub fn authority<'a>(&self, t: &'a [u8]) -> Option<&'a [u8]> {
		self.get(t, &self.authority)
	}
	pub fn path<'a>(&self, t: &'a [u8]) -> &'a [u8] {
		&t[self.path.clone()]
	}
	pub fn query<'a>(&self, t: &'a [u8]) -> Option<&'a [u8]> {
		self.get(t, &self.query)
	}
	pub fn fragment<'a>(&self, t: &'a [u8]) -> Option<&'a [u8]> {
		self.get(t, &self.fragment)
	}
}

/// RFC 3986 section 5.3 recomposition.
pub fn compose5(
	scheme: Option<&[u8]>,
	authority: Option<&[u8]>,
	path: &[u8],
	query: Option<&[u8]>,
	fragment: Option<&[u8]>,
) -> Vec<u8> {
	let mut out = Vec::new();
	if let Some(s) = scheme {
		out.extend_from_slice(s);
		out.push(b':');
	}
	if let Some(a) = authority {
		out.extend_from_slice(b"//");
		out.extend_from_slice(a);
	}
	out.extend_from_slice(path);
	if let Some(q) = query {
		out.push(b'?');
		out.extend_from_slice(q);
	}
	if let Some(f) = fragment {
		out.push(b'#');
		out.extend_from_slice(f);
	}
	out
}

#[derive(Debug, Clone, PartialEq, Eq)]
pub struct Split3 {
	pub userinfo: Option<Range<usize>>,
	pub host: Range<usize>,
	pub port: Option<Range<usize>>,
}

/// RFC 3986 section 3.2: `[ userinfo "@" ] host [ ":" port ]`.
/// Neither user info nor host can contain '@', so the first '@' delimits.
pub fn split3(a: &[u8]) -> Split3 {
	let n = a.len();
	let mut userinfo = None;
	let mut hs = 0;
	if let Some(at) = a.iter().position(|b| *b == b'@') {
		userinfo = Some(0..at);
		hs = at + 1;
	}
	let mut he = hs;
	if he < n && a[he] == b'[' {
		while he < n && a[he] != b']' {
			he += 1;
		}
		if he < n {
			he += 1; // include ']'
		}
	} else {
		while he < n && a[he] != b':' {
			he += 1;
		}
	}
	let port = if he < n && a[he] == b':' {
		Some((he + 1)..n)
	} else {
		None
	};
	Split3 {
		userinfo,
		host: hs..he,
		port,
	}
}

pub fn compose3(userinfo: Option<&[u8]>, host: &[u8], port: Option<&[u8]>) -> Vec<u8> {
	let mut out = Vec::new();
	if let Some(u) = userinfo {
		out.extend_from_slice(u);
		out.push(b'@');
	}
	out.extend_from_slice(host);
	if let Some(p) = port {
		out.push(b':');
		out.extend_from_slice(p);
	}
	out
}

/// Literal list view of a path: (absolute, segments). `/` has no segment,
/// `/a/` has two (`a`, ``), `//` has two empty ones.
pub fn path_segs(p: &[u8]) -> (bool, Vec<Vec<u8>>) {
	let abs = p.first() == Some(&b'/');
	let rest = if abs { &p[1..] } else { p };
	if rest.is_empty() {
		(abs, Vec::new())
	} else {
		(abs, rest.split(|b| *b == b'/').map(|s| s.to_vec()).collect())
	}
}

/// Shield equivalence: a leading `.` is a shield iff it is followed by a
/// segment that is empty or contains ':'. Two lists denote the same sequence
/// iff their strips are equal.
pub fn strip(segs: &[Vec<u8>]) -> &[Vec<u8>] {
	if segs.len() >= 2 && segs[0] == b"." && (segs[1].is_empty() || segs[1].contains(&b':')) {
		&segs[1..]
	} else {
		segs
	}
}

pub type Segs = Vec<Vec<u8>>;

fn m_pop(abs: bool, segs: &mut Segs) {
	if segs.is_empty() {
		if !abs {
			segs.push(b"..".to_vec());
		}
	} else if segs.last().map(|s| s.as_slice()) == Some(b"..") {
		segs.push(b"..".to_vec());
	} else {
		segs.pop();
	}
}

#[derive(Debug, Clone, PartialEq, Eq)]
pub enum MPathOp<'a> {
	Push(&'a [u8]),
	Pop,
	Clear,
	SymPush(&'a [u8]),
	SymAppend(Vec<&'a [u8]>),
}

/// All segment lists the property allows as the outcome of `op` on the
/// literal list `segs` of a path that is `abs`olute or not. The first entry is
/// the primary reading; further entries are the readings the statement leaves
/// open (see DESIGN 2.4), each accepted and counted.
/// `None`: more open readings than the cap - the model gives no verdict on this operation.
pub fn path_outcomes(abs: bool, segs: &Segs, op: &MPathOp) -> Option<Vec<Segs>> {
	const CAP: usize = 512;

	fn add(v: &mut Vec<(Segs, u8)>, seen: &mut std::collections::HashSet<(Segs, u8)>, x: (Segs, u8)) {
		if seen.insert(x.clone()) {
			v.push(x)
		}
	}

	/// Folds dot-segment semantics over `items`. The state is a *set* of
	/// (list, open) pairs: after every item the list may also be re-read with a
	/// leading shield stripped, because an implementation working on the text
	/// cannot tell a shield it wrote from a '.' segment that was there before.
	/// open: 0 = closed, 1 = opened by '.', 2 = opened by '..'
	fn sym_fold(abs: bool, start: &Segs, items: &[&[u8]]) -> Option<Vec<Segs>> {
		let mut states: Vec<(Segs, u8)> = vec![(start.clone(), 0)];
		for it in items {
			let mut next: Vec<(Segs, u8)> = Vec::new();
			let mut seen = std::collections::HashSet::new();
			for (s, open) in &states {
				match *it {
					b"." => add(&mut next, &mut seen, (s.clone(), if *open == 2 { 2 } else { 1 })),
					b".." => {
						let mut t = s.clone();
						m_pop(abs, &mut t);
						add(&mut next, &mut seen, (t, 2));
						// left open by the statement: on a list that ends in an empty segment
						// ("a/b/") the directory meaning of ".." per RFC 3986 5.2.4 removes the
						// empty segment together with its predecessor ("a/"), while popping the
						// last segment only gives "a/b/" again
						if s.len() >= 2 && s.last().map(|l| l.is_empty()).unwrap_or(false) && s[s.len() - 2] != b".." {
							let mut t2 = s.clone();
							t2.pop();
							t2.pop();
							add(&mut next, &mut seen, (t2, 2));
						}
					}
					seg => {
						// left open by the statement: an empty segment symbolically
						// pushed onto an empty path is appended or skipped
						if seg.is_empty() && s.is_empty() {
							add(&mut next, &mut seen, (s.clone(), 0));
						}
						let mut t = s.clone();
						t.push(seg.to_vec());
						add(&mut next, &mut seen, (t, 0));
					}
				}
			}
			let snapshot = next.clone();
			for (s, open) in &snapshot {
				let st = strip(s).to_vec();
				add(&mut next, &mut seen, (st, *open));
			}
			if next.len() > CAP {
				return None;
			}
			states = next;
		}
		let mut out: Vec<Segs> = Vec::new();
		for (s, open) in states {
			let mut variants: Vec<Segs> = Vec::new();
			if open != 0 && !s.is_empty() {
				let ends_empty = s.last().map(|l| l.is_empty()).unwrap_or(false);
				let mut t = s.clone();
				t.push(Vec::new());
				variants.push(t);
				// left open by the statement: '.' applied to a list that already
				// ends in an empty segment ("a/" + "." is "a/" or "a//")
				if open == 1 && ends_empty {
					variants.push(s.clone());
				}
			} else {
				variants.push(s);
			}
			for v in variants {
				if !out.contains(&v) {
					out.push(v);
				}
			}
		}
		Some(out)
	}

	match op {
		MPathOp::Push(s) => {
			let mut r = segs.clone();
			r.push(s.to_vec());
			Some(vec![r])
		}
		MPathOp::Pop => {
			let mut r = segs.clone();
			m_pop(abs, &mut r);
			Some(vec![r])
		}
		MPathOp::Clear => Some(vec![Vec::new()]),
		MPathOp::SymPush(s) => sym_fold(abs, segs, &[*s]),
		MPathOp::SymAppend(items) => sym_fold(abs, segs, items),
	}
}

/// Renders a list as path text without any shield (used only to print
/// expectations in reports).
pub fn render(abs: bool, segs: &Segs) -> Vec<u8> {
	let mut out = Vec::new();
	if abs {
		out.push(b'/');
	}
	for (i, s) in segs.iter().enumerate() {
		if i > 0 {
			out.push(b'/');
		}
		out.extend_from_slice(s);
	}
	out
}

#[cfg(test)]
mod tests {
	use super::*;

	#[test]
	fn split5_basic() {
		let t = b"s://u@h:1/p/q?x#y";
		let s = split5(t);
		assert_eq!(s.scheme(t), Some(&b"s"[..]));
		assert_eq!(s.authority(t), Some(&b"u@h:1"[..]));
		assert_eq!(s.path(t), b"/p/q");
		assert_eq!(s.query(t), Some(&b"x"[..]));
		assert_eq!(s.fragment(t), Some(&b"y"[..]));
		let t = b"a/b:c";
		let s = split5(t);
		assert_eq!(s.scheme(t), None);
		assert_eq!(s.path(t), b"a/b:c");
		let t = b"//";
		let s = split5(t);
		assert_eq!(s.authority(t), Some(&b""[..]));
		assert_eq!(s.path(t), b"");
		let t = b"?#";
		let s = split5(t);
		assert_eq!(s.query(t), Some(&b""[..]));
		assert_eq!(s.fragment(t), Some(&b""[..]));
	}

	#[test]
	fn split3_basic() {
		let a = b"u:p@[::1]:80";
		let s = split3(a);
		assert_eq!(&a[s.userinfo.clone().unwrap()], b"u:p");
		assert_eq!(&a[s.host.clone()], b"[::1]");
		assert_eq!(&a[s.port.clone().unwrap()], b"80");
		let a = b"h";
		let s = split3(a);
		assert_eq!(s.userinfo, None);
		assert_eq!(&a[s.host.clone()], b"h");
		assert_eq!(s.port, None);
		let a = b"@:";
		let s = split3(a);
		assert_eq!(s.userinfo, Some(0..0));
		assert_eq!(s.host, 1..1);
		assert_eq!(s.port, Some(2..2));
	}

	fn v(x: &[&str]) -> Segs {
		x.iter().map(|s| s.as_bytes().to_vec()).collect()
	}

	#[test]
	fn outcomes_push_pop_clear() {
		assert_eq!(path_outcomes(false, &v(&["a"]), &MPathOp::Push(b"b")).unwrap(), vec![v(&["a", "b"])]);
		assert_eq!(path_outcomes(false, &v(&[]), &MPathOp::Pop).unwrap(), vec![v(&[".."])]);
		assert_eq!(path_outcomes(true, &v(&[]), &MPathOp::Pop).unwrap(), vec![v(&[])]);
		assert_eq!(path_outcomes(true, &v(&["a", ".."]), &MPathOp::Pop).unwrap(), vec![v(&["a", "..", ".."])]);
		assert_eq!(path_outcomes(true, &v(&["a", "b"]), &MPathOp::Pop).unwrap(), vec![v(&["a"])]);
		assert_eq!(path_outcomes(true, &v(&["a", "b"]), &MPathOp::Clear).unwrap(), vec![v(&[])]);
	}

	#[test]
	fn outcomes_symbolic() {
		// ".." pops and leaves the directory open
		let o = path_outcomes(true, &v(&["a", "b"]), &MPathOp::SymPush(b"..")).unwrap();
		assert!(o.contains(&v(&["a", ""])));
		assert!(!o.contains(&v(&["a"])));
		// "." on a list ending in an empty segment: both readings
		let o = path_outcomes(false, &v(&["a", ""]), &MPathOp::SymPush(b".")).unwrap();
		assert!(o.contains(&v(&["a", ""])) && o.contains(&v(&["a", "", ""])));
		// ".." after which the list ends in an empty segment: the empty segment must be added
		let o = path_outcomes(true, &v(&["a", "", "b"]), &MPathOp::SymAppend(vec![b".."])).unwrap();
		assert_eq!(o, vec![v(&["a", "", ""])]);
		// an empty segment onto an empty list: appended or skipped
		let o = path_outcomes(false, &v(&[]), &MPathOp::SymPush(b"")).unwrap();
		assert!(o.contains(&v(&[])) && o.contains(&v(&[""])));
		// ordinary segments behave like push
		assert_eq!(path_outcomes(false, &v(&["a"]), &MPathOp::SymAppend(vec![b"b", b"c"])).unwrap(), vec![v(&["a", "b", "c"])]);
	}

	#[test]
	fn shield_equivalence() {
		assert_eq!(strip(&v(&[".", "a:b"])), &v(&["a:b"])[..]);
		assert_eq!(strip(&v(&[".", ""])), &v(&[""])[..]);
		assert_eq!(strip(&v(&[".", "x"])), &v(&[".", "x"])[..]);
		assert_eq!(strip(&v(&["."])), &v(&["."])[..]);
		assert_eq!(strip(&v(&["a", ".", ""])), &v(&["a", ".", ""])[..]);
	}

	#[test]
	fn segs() {
		assert_eq!(path_segs(b"/"), (true, vec![]));
		assert_eq!(path_segs(b""), (false, vec![]));
		assert_eq!(path_segs(b"/a/"), (true, vec![b"a".to_vec(), vec![]]));
		assert_eq!(path_segs(b"//"), (true, vec![vec![], vec![]]));
	}
}
