//! Data types of a simulated history (the replay file format) and of a
//! violation report.

use serde::{Deserialize, Deserializer, Serialize, Serializer};

/// Buffer text as observed: JSON string when UTF-8, `{"hex": ...}` otherwise.
#[derive(Clone, PartialEq, Eq, Debug, Default, Hash)]
pub struct Txt(pub Vec<u8>);

impl Txt {
	pub fn lossy(&self) -> String {
		String::from_utf8_lossy(&self.0).into_owned()
	}
}

impl From<&[u8]> for Txt {
	fn from(b: &[u8]) -> Self {
		Txt(b.to_vec())
	}
}

impl Serialize for Txt {
	fn serialize<S: Serializer>(&self, s: S) -> Result<S::Ok, S::Error> {
		match std::str::from_utf8(&self.0) {
			Ok(t) => s.serialize_str(t),
			Err(_) => {
				use serde::ser::SerializeMap;
				let mut m = s.serialize_map(Some(1))?;
				let hex: String = self.0.iter().map(|b| format!("{:02x}", b)).collect();
				m.serialize_entry("hex", &hex)?;
				m.end()
			}
		}
	}
}

impl<'de> Deserialize<'de> for Txt {
	fn deserialize<D: Deserializer<'de>>(d: D) -> Result<Self, D::Error> {
		#[derive(Deserialize)]
		#[serde(untagged)]
		enum R {
			S(String),
			H { hex: String },
		}
		match R::deserialize(d)? {
			R::S(s) => Ok(Txt(s.into_bytes())),
			R::H { hex } => {
				let b = hex.as_bytes();
				let mut out = Vec::new();
				let mut i = 0;
				while i + 1 < b.len() {
					let h = (b[i] as char).to_digit(16).unwrap_or(0) as u8;
					let l = (b[i + 1] as char).to_digit(16).unwrap_or(0) as u8;
					out.push(h * 16 + l);
					i += 2;
				}
				Ok(Txt(out))
			}
		}
	}
}

#[derive(Clone, Copy, PartialEq, Eq, Debug, Serialize, Deserialize, Hash, PartialOrd, Ord)]
pub enum Kind {
	UriBuf,
	UriRefBuf,
	IriBuf,
	IriRefBuf,
	UriPathBuf,
	IriPathBuf,
}

impl Kind {
	pub const ALL: [Kind; 6] = [Kind::UriBuf, Kind::UriRefBuf, Kind::IriBuf, Kind::IriRefBuf, Kind::UriPathBuf, Kind::IriPathBuf];
	pub fn is_iri(self) -> bool {
		matches!(self, Kind::IriBuf | Kind::IriRefBuf | Kind::IriPathBuf)
	}
	pub fn is_path(self) -> bool {
		matches!(self, Kind::UriPathBuf | Kind::IriPathBuf)
	}
	pub fn needs_scheme(self) -> bool {
		matches!(self, Kind::UriBuf | Kind::IriBuf)
	}
	pub fn is_ref(self) -> bool {
		matches!(self, Kind::UriRefBuf | Kind::IriRefBuf)
	}
}

/// How the initial buffer is obtained (C04: "however obtained").
#[derive(Clone, Copy, PartialEq, Eq, Debug, Serialize, Deserialize, Hash, PartialOrd, Ord)]
pub enum Route {
	New,
	FromStr,
	TryFrom,
	FromVec,
	/// `Default` (text must be empty; reference and path types only)
	Default,
	/// `from_scheme` (text must be `scheme:`; UriBuf / IriBuf only)
	FromScheme,
	/// parsed as another of the URI/IRI types, then converted
	ConvertedFrom(Kind),
	/// `to_owned()` of a borrowed value
	ToOwned,
}

#[derive(Clone, Copy, PartialEq, Eq, Debug, Serialize, Deserialize, Hash, PartialOrd, Ord)]
pub enum Comp {
	Scheme,
	Authority,
	Path,
	Query,
	Fragment,
}

/// What happens to the live handle before an operation of a burst.
#[derive(Clone, Copy, PartialEq, Eq, Debug, Serialize, Deserialize, Hash, PartialOrd, Ord)]
pub enum Life {
	Keep,
	/// drop the handle, obtain a fresh one (restart)
	Reopen,
	/// `mem::forget` the handle, obtain a fresh one (crash without destructors)
	Leak,
}

/// Behaviour of the caller-supplied iterator given to `symbolic_append`.
#[derive(Clone, Copy, PartialEq, Eq, Debug, Serialize, Deserialize, Hash, PartialOrd, Ord)]
pub enum IterMode {
	Normal,
	/// yields k items, then unwinds (caught by the harness)
	Unwind(usize),
	/// yields k items, then `None`, then would yield more (non-fused)
	Short(usize),
}

#[derive(Clone, PartialEq, Eq, Debug, Serialize, Deserialize, Hash)]
pub enum PathOp {
	Push(String),
	Pop,
	Clear,
	SymPush(String),
	SymAppend(Vec<String>, IterMode),
	Normalize,
	/// read through the handle only
	Read,
}

impl PathOp {
	pub fn name(&self) -> &'static str {
		match self {
			PathOp::Push(_) => "push",
			PathOp::Pop => "pop",
			PathOp::Clear => "clear",
			PathOp::SymPush(_) => "symbolic_push",
			PathOp::SymAppend(..) => "symbolic_append",
			PathOp::Normalize => "normalize",
			PathOp::Read => "read",
		}
	}
}

#[derive(Clone, PartialEq, Eq, Debug, Serialize, Deserialize, Hash)]
pub enum AuthOp {
	SetUserinfo(Option<String>),
	SetHost(String),
	SetPort(Option<String>),
	Read,
}

impl AuthOp {
	pub fn name(&self) -> &'static str {
		match self {
			AuthOp::SetUserinfo(_) => "set_userinfo",
			AuthOp::SetHost(_) => "set_host",
			AuthOp::SetPort(_) => "set_port",
			AuthOp::Read => "read",
		}
	}
}

#[derive(Clone, PartialEq, Eq, Debug, Serialize, Deserialize, Hash)]
pub struct BOp<T> {
	pub life: Life,
	pub op: T,
}

#[derive(Clone, PartialEq, Eq, Debug, Serialize, Deserialize, Hash)]
pub enum Step {
	/// whole-buffer setter; `None` removes (scheme of UriBuf/IriBuf cannot be removed)
	Set(Comp, Option<String>),
	/// in-place (`resolve`) or by-value (`into_resolved`) resolution against a base
	Resolve { base: String, by_value: bool },
	/// conversion between the eight URI/IRI types (failure leaves the value as is)
	Convert(Kind),
	/// edits through one `PathMut`
	PathBurst(Vec<BOp<PathOp>>),
	/// edits through one `AuthorityMut`
	AuthBurst(Vec<BOp<AuthOp>>),
	/// `PathBuf::{push,pop,...}` called directly (stand-alone path buffers)
	Direct(PathOp),
	/// move the owner out through its text and re-parse it
	Roundtrip,
	/// clone the owner; both copies get the rest of the history
	CloneTwin,
}

impl Step {
	pub fn name(&self) -> String {
		match self {
			Step::Set(c, v) => format!("set_{:?}({})", c, if v.is_some() { "some" } else { "none" }).to_lowercase(),
			Step::Resolve { by_value, .. } => if *by_value { "into_resolved".into() } else { "resolve".into() },
			Step::Convert(k) => format!("convert_{:?}", k),
			Step::PathBurst(_) => "path_burst".into(),
			Step::AuthBurst(_) => "authority_burst".into(),
			Step::Direct(op) => format!("direct_{}", op.name()),
			Step::Roundtrip => "roundtrip".into(),
			Step::CloneTwin => "clone_twin".into(),
		}
	}
}

#[derive(Clone, PartialEq, Eq, Debug, Serialize, Deserialize, Hash)]
pub struct Init {
	pub kind: Kind,
	pub route: Route,
	pub text: String,
	/// spare capacity reserved in the buffer before the history starts
	pub slack: usize,
}

#[derive(Clone, PartialEq, Eq, Debug, Serialize, Deserialize, Hash)]
pub struct Trace {
	pub init: Init,
	pub steps: Vec<Step>,
}

/// Finite classification of a violation, computed on the minimised trace; the
/// unit by which known findings are matched (never by seed).
#[derive(Clone, PartialEq, Eq, Debug, Serialize, Deserialize, PartialOrd, Ord)]
pub struct Signature {
	pub oracle: String,
	pub op: String,
	pub pre: String,
	pub arg: String,
}

#[derive(Clone, Debug, Serialize, Deserialize)]
pub struct Violation {
	pub property: String,
	pub oracle: String,
	/// index of the step, and of the operation inside a burst
	pub step: usize,
	pub op_index: Option<usize>,
	pub op: String,
	pub message: String,
	pub pre: Option<Txt>,
	pub expected: Option<Txt>,
	pub observed: Option<Txt>,
	#[serde(default)]
	pub signature: Option<Signature>,
}

#[derive(Clone, Debug, Serialize, Deserialize)]
pub struct Replay {
	pub engine: String,
	pub property: String,
	pub seed: u64,
	pub run: u64,
	pub profile: String,
	#[serde(default)]
	pub trace: Option<Trace>,
	#[serde(default)]
	pub iter: Option<IterCase>,
	#[serde(default)]
	pub alloc: Option<AllocCase>,
	pub violation: Violation,
	#[serde(default)]
	pub original_steps: usize,
	#[serde(default)]
	pub minimise_attempts: usize,
}

/// itersim case: one path, one schedule of front/back steps.
#[derive(Clone, PartialEq, Eq, Debug, Serialize, Deserialize, Hash)]
pub struct IterCase {
	pub iri: bool,
	pub path: String,
	/// 'F' = next(), 'B' = next_back()
	pub schedule: String,
	/// iterate `normalized_segments()` instead of `segments()`
	pub normalized: bool,
}

/// allocsim case: one borrowed type, one input, (for reports) one accessor.
#[derive(Clone, PartialEq, Eq, Debug, Serialize, Deserialize, Hash)]
pub struct AllocCase {
	pub ty: String,
	pub text: Txt,
	#[serde(default)]
	pub accessor: Option<String>,
}
