#!/bin/bash
# Self-tests of the machinery (not registered in MANIFEST; results quoted in DESIGN.md).
#   ./check selftest determinism     per-run digests identical across processes and worker counts
#   ./selftest.sh - sensitivity [patch...]   every patch in mutants/ and seeded/ is detected by its check
set -u
VERIF="$(cd "$(dirname "$0")" && pwd)"
BIN="${1:-$VERIF/sim/target/release/irefsim}"
MODE="${2:-determinism}"
shift 2 2>/dev/null || true

case "$MODE" in
determinism)
	fail=0
	tmp=$(mktemp -d /tmp/irefsim-det.XXXXXX)
	for p in C04 C10 C11 C12 C20; do
		for seed in 1 7 123456789; do
			"$BIN" digest --property $p --seed $seed --runs 3000 --jobs 1 --no-evidence | grep '^run ' > "$tmp/a"
			"$BIN" digest --property $p --seed $seed --runs 3000 --jobs 16 --no-evidence | grep '^run ' > "$tmp/b"
			"$BIN" digest --property $p --seed $seed --runs 3000 --jobs 5 --no-evidence | grep '^run ' > "$tmp/c"
			if cmp -s "$tmp/a" "$tmp/b" && cmp -s "$tmp/a" "$tmp/c" && [ "$(wc -l < "$tmp/a")" = 3000 ]; then
				echo "deterministic: $p seed=$seed (3000 runs, jobs 1/5/16, 3 processes)"
			else
				echo "NONDETERMINISM: $p seed=$seed"
				fail=1
			fi
		done
	done
	rm -rf "$tmp"
	exit $fail
	;;
sensitivity)
	# usage: selftest.sh <bin|-> sensitivity [files...]; default: all of mutants/*.diff and seeded/*/patch.diff
	files=("$@")
	if [ ${#files[@]} -eq 0 ]; then
		files=("$VERIF"/mutants/*.diff "$VERIF"/seeded/*/patch.diff)
	fi
	scratch=/tmp/iref-sens.$$
	git -C /repo worktree add --detach "$scratch" HEAD -q || exit 2
	trap 'git -C /repo worktree remove --force "$scratch" >/dev/null 2>&1' EXIT
	missed=0
	for f in "${files[@]}"; do
		[ -f "$f" ] || continue
		f="$(cd "$(dirname "$f")" && pwd)/$(basename "$f")"
		case "$f" in
			*/seeded/*) prop=$(python3 -c "import json,sys;print(json.load(open(sys.argv[1]))['property'])" "$(dirname "$f")/meta.json");;
			*) prop=$(basename "$f" | sed -E 's/.*\.(C[0-9]+)\.diff/\1/');;
		esac
		git -C "$scratch" checkout -q -- . && git -C "$scratch" apply "$f" || { echo "CANNOT APPLY $f"; missed=1; continue; }
		out=$(IREF_REPO="$scratch" "$VERIF/check" "$prop" quick 2>&1)
		rc=$?
		if [ $rc -eq 1 ]; then
			if [ -n "${KEEP_REPLAYS:-}" ]; then
				mkdir -p "$KEEP_REPLAYS"
				rp=$(echo "$out" | sed -n 's/^VIOLATION property=[A-Z0-9]* replay=//p' | head -1)
				case "$f" in
					*/seeded/*) nm="seeded-$(basename "$(dirname "$f")" | sed -E 's/^C[0-9]+-//')";;
					*) nm="$(basename "$f" .diff | sed -E 's/\.C[0-9]+$//')";;
				esac
				[ -f "$rp" ] && cp "$rp" "$KEEP_REPLAYS/$prop-$nm.json"
			fi
			echo "caught  $prop $(basename "$(dirname "$f")")/$(basename "$f"): $(echo "$out" | sed 's/^\[unchecked\] //' | grep -E '^  (oracle|op) ' | tr -s ' ' | tr '\n' ';')"
		else
			echo "MISSED  $prop $f (exit $rc)"
			missed=1
		fi
	done
	rm -f "$VERIF"/replays/*.json
	exit $missed
	;;
benign)
	# every property-preserving variant under benign/ must leave all five checks silent
	scratch=/tmp/iref-ben.$$
	git -C /repo worktree add --detach "$scratch" HEAD -q || exit 2
	trap 'git -C /repo worktree remove --force "$scratch" >/dev/null 2>&1' EXIT
	alarms=0
	for f in "$VERIF"/benign/*/patch.diff; do
		git -C "$scratch" checkout -q -- . && git -C "$scratch" apply "$f" || { echo "CANNOT APPLY $f"; alarms=1; continue; }
		res=""
		for p in C04 C10 C11 C12 C20; do
			IREF_REPO="$scratch" "$VERIF/check" "$p" quick >/dev/null 2>&1; rc=$?
			res="$res $p=$rc"
			[ $rc -ne 0 ] && alarms=1
		done
		echo "$(basename "$(dirname "$f")"):$res"
	done
	rm -f "$VERIF"/replays/*.json
	exit $alarms
	;;
model)
	# unit tests of the reference model
	cd "$VERIF/sim" && exec cargo test --release --offline
	;;
*)
	echo "usage: selftest.sh <bin> determinism|sensitivity|benign|model" >&2
	exit 2
	;;
esac
