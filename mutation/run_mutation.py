#!/usr/bin/env python3
"""Systematic single-token mutation of the code behind the claimed properties.

For every mutant that still compiles AND still passes the repository's own unit tests (the 82
tests of the baseline), all five checks are run (quick tier). Results go to results.jsonl.
A mutant that survives both the suite and our checks is listed for manual triage: it is either
equivalent, or breaks only a property this technique does not claim, or is a miss.

usage: run_mutation.py [--max N] [--only FILE_SUBSTR]
"""
import json, os, re, subprocess, sys, hashlib

VERIF = os.path.dirname(os.path.dirname(os.path.abspath(__file__)))
SCRATCH = "/tmp/iref-mutation"
OUT = os.path.join(VERIF, "mutation", "results.jsonl")

# (file, first line, last line) - the code anchored by C04, C10, C11, C12 (C20 rides along)
REGIONS = [
    ("crates/core/src/common/path_mut.rs", 40, 290),
    ("crates/core/src/common/authority_mut.rs", 20, 125),
    ("crates/core/src/utils.rs", 1, 41),
    ("crates/core/src/common/path.rs", 80, 330),
    ("crates/core/src/common/path.rs", 376, 500),
    ("crates/core/src/common/reference.rs", 195, 440),
    ("crates/core/src/common/parse.rs", 1, 330),
]

# the two families' wrapper layers (thin forwarding code, duplicated per family)
WRAPPER_REGIONS = [
    ("crates/core/src/iri/path_mut.rs", 1, 100), ("crates/core/src/uri/path_mut.rs", 1, 100),
    ("crates/core/src/iri/authority_mut.rs", 1, 60), ("crates/core/src/uri/authority_mut.rs", 1, 60),
    ("crates/core/src/iri/path.rs", 24, 400), ("crates/core/src/uri/path.rs", 24, 420),
    ("crates/core/src/iri/reference.rs", 286, 515), ("crates/core/src/uri/reference.rs", 270, 500),
    ("crates/core/src/iri/mod.rs", 385, 580), ("crates/core/src/uri/mod.rs", 360, 545),
    ("crates/core/src/common/mod.rs", 1, 50),
]

OPS = [
    (r"\+= ", "-= "), (r"-= ", "+= "),
    (r" \+ 1\b", " + 0"), (r" - 1\b", " - 0"), (r" \+ 2\b", " + 1"), (r" - 2\b", " - 1"),
    (r" >= ", " > "), (r" > ", " >= "), (r" <= ", " < "), (r" < ", " <= "),
    (r" == ", " != "), (r" != ", " == "),
    (r" && ", " || "), (r" \|\| ", " && "),
    (r"\btrue\b", "false"), (r"\bfalse\b", "true"),
    (r"\.is_some\(\)", ".is_none()"), (r"\.is_none\(\)", ".is_some()"),
    (r"\.is_empty\(\)", ".is_empty() == false"),
    (r"b\"\./\"", "b\"..\""), (r"b\"/\.\"", "b\"//\""),
]


def sh(cmd, cwd=None, env=None, timeout=1200):
    e = dict(os.environ)
    if env:
        e.update(env)
    p = subprocess.run(cmd, shell=True, cwd=cwd, env=e, stdout=subprocess.PIPE, stderr=subprocess.STDOUT, text=True, timeout=timeout)
    return p.returncode, p.stdout


def enumerate_mutants(regions=None):
    muts = []
    for f, lo, hi in (regions or REGIONS):
        lines = open(os.path.join("/repo", f)).read().split("\n")
        in_tests = False
        for ln in range(lo, min(hi, len(lines)) + 1):
            text = lines[ln - 1]
            if "#[cfg(test)]" in text:
                in_tests = True
            if in_tests:
                break
            stripped = text.strip()
            if stripped.startswith("//") or stripped.startswith("///") or stripped.startswith("#["):
                continue
            code = text.split("//")[0]
            for pat, rep in OPS:
                for m in re.finditer(pat, code):
                    new = text[: m.start()] + rep + text[m.end():]
                    if new != text:
                        muts.append({"file": f, "line": ln, "col": m.start(), "old": text.strip(), "new": new.strip(), "_newline": new})
    # stable order, stable ids
    for m in muts:
        m["id"] = hashlib.sha1(f"{m['file']}:{m['line']}:{m['col']}:{m['new']}".encode()).hexdigest()[:10]
    return muts


def main():
    mx = None
    only = None
    a = sys.argv[1:]
    while a:
        if a[0] == "--max":
            mx = int(a[1]); a = a[2:]
        elif a[0] == "--only":
            only = a[1]; a = a[2:]
        else:
            a = a[1:]
    muts = enumerate_mutants(WRAPPER_REGIONS if "--wrappers" in sys.argv else None)
    if only:
        muts = [m for m in muts if only in m["file"]]
    # deterministic spread over the whole list when capped
    if mx and len(muts) > mx:
        step = len(muts) / mx
        muts = [muts[int(i * step)] for i in range(mx)]
    done = set()
    if os.path.exists(OUT):
        for l in open(OUT):
            try:
                done.add(json.loads(l)["id"])
            except Exception:
                pass
    print(f"{len(muts)} mutants selected, {len(done)} already done", flush=True)
    if not os.path.isdir(SCRATCH):
        rc, o = sh(f"git -C /repo worktree add --detach {SCRATCH} HEAD -q")
        if rc != 0:
            print(o); sys.exit(2)
    for k, m in enumerate(muts):
        if m["id"] in done:
            continue
        sh("git checkout -q -- .", cwd=SCRATCH)
        p = os.path.join(SCRATCH, m["file"])
        lines = open(p).read().split("\n")
        lines[m["line"] - 1] = m["_newline"]
        open(p, "w").write("\n".join(lines))
        rec = {k2: v for k2, v in m.items() if not k2.startswith("_")}
        rc, o = sh("cargo test -p iref-core --lib --offline 2>&1 | tail -15", cwd=SCRATCH)
        if "error" in o and "test result" not in o:
            rec["status"] = "does_not_compile"
        elif "test result: ok" not in o:
            rec["status"] = "killed_by_suite"
        else:
            rec["status"] = "passes_suite"
            checks = {}
            for prop in ["C04", "C10", "C11", "C12", "C20"]:
                try:
                    rc, o = sh(f"{VERIF}/check {prop} quick", env={"IREF_REPO": SCRATCH}, timeout=900)
                except subprocess.TimeoutExpired:
                    rc, o = 124, ""
                checks[prop] = rc
                if rc == 1:
                    mo = re.search(r"oracle   : (\S+)", o)
                    checks[prop + "_oracle"] = mo.group(1) if mo else "?"
            rec["checks"] = checks
            rec["caught"] = any(v == 1 for k2, v in checks.items() if not k2.endswith("_oracle"))
            sh(f"rm -f {VERIF}/replays/*.json")
        with open(OUT, "a") as fh:
            fh.write(json.dumps(rec) + "\n")
        print(k, rec["id"], rec["file"].split("/")[-1], rec["line"], rec["status"], rec.get("caught"), rec.get("checks"), flush=True)
    sh("git checkout -q -- .", cwd=SCRATCH)
    sh(f"git -C /repo worktree remove --force {SCRATCH}")


if __name__ == "__main__":
    main()
