#!/bin/bash
# Confirms a seeded change produced by a sub-agent and files it under seeded/<name>/.
#   confirm_seed.sh <agent-worktree> <property> <name> "<what it needs to manifest>"
# Steps (all in a fresh scratch worktree of /repo, removed afterwards):
#   demo passes without the patch; demo fails with it; existing suite passes with it;
#   then our check for <property> is run against the patched tree.
set -u
WT="$1"; PROP="$2"; NAME="$3"; NEEDS="${4:-}"
VERIF="$(cd "$(dirname "$0")" && pwd)"
OUT="$WT/OUT"
demo=$(ls "$OUT"/demo_*.rs | head -1)
[ -f "$OUT/patch.diff" ] && [ -f "$demo" ] || { echo "missing deliverables in $OUT"; exit 2; }
S=/tmp/conf-$NAME
git -C /repo worktree add --detach "$S" HEAD -q || exit 2
trap 'git -C /repo worktree remove --force "$S" >/dev/null 2>&1' EXIT
mkdir -p "$S/crates/core/tests"
cp "$demo" "$S/crates/core/tests/"
tn=$(basename "$demo" .rs)
(cd "$S" && cargo test -p iref-core --offline --test "$tn" >/tmp/conf-$NAME.without.log 2>&1); without=$?
(cd "$S" && git apply "$OUT/patch.diff") || { echo "patch does not apply"; exit 2; }
(cd "$S" && cargo test -p iref-core --offline --test "$tn" >/tmp/conf-$NAME.with.log 2>&1); with=$?
rm "$S/crates/core/tests/$(basename "$demo")"
(cd "$S" && cargo test --workspace --no-fail-fast --offline >/tmp/conf-$NAME.suite.log 2>&1); suite=$?
echo "demo without patch: exit $without (want 0); demo with patch: exit $with (want !=0); existing suite with patch: exit $suite (want 0)"
if [ $without -ne 0 ] || [ $with -eq 0 ] || [ $suite -ne 0 ]; then
	echo "NOT CONFIRMED"; exit 3
fi
out=$(IREF_REPO="$S" "$VERIF/check" "$PROP" quick 2>&1); rc=$?
echo "$out" | tail -12
echo "check $PROP quick on the patched tree: exit $rc"
mkdir -p "$VERIF/seeded/$NAME"
cp "$OUT/patch.diff" "$VERIF/seeded/$NAME/patch.diff"
cp "$demo" "$VERIF/seeded/$NAME/"
[ -f "$OUT/notes.md" ] && cp "$OUT/notes.md" "$VERIF/seeded/$NAME/notes.md"
oracle=$(echo "$out" | sed -n 's/^\(\[unchecked\] \)\{0,1\}  oracle   : //p' | head -1)
op=$(echo "$out" | sed -n 's/^\(\[unchecked\] \)\{0,1\}  op       : //p' | head -1)
python3 - "$VERIF/seeded/$NAME/meta.json" "$PROP" "$NAME" "$NEEDS" "$rc" "$oracle" "$op" <<'EOF'
import json,sys
path,prop,name,needs,rc,oracle,op=sys.argv[1:8]
json.dump({
 "property": prop,
 "name": name,
 "origin": "fresh sub-agent given only the property text and a scratch worktree",
 "needs_to_manifest": needs,
 "confirmed": {
   "demo_passes_without_patch": True,
   "demo_fails_with_patch": True,
   "existing_suite_passes_with_patch": True,
   "how": "confirm_seed.sh: fresh worktree of /repo HEAD; cargo test -p iref-core --test <demo> before/after git apply; cargo test --workspace --no-fail-fast --offline with the patch"
 },
 "our_check": {"cmd": f"IREF_REPO=<patched tree> ./check {prop} quick", "exit": int(rc), "caught": int(rc)==1, "oracle": oracle, "op": op}
}, open(path,"w"), indent=1)
EOF
# the minimised replay of a caught change becomes a regression corpus entry (re-run first by every check)
rp=$(echo "$out" | sed -n 's/^VIOLATION property=[A-Z0-9]* replay=//p' | head -1)
if [ $rc -eq 1 ] && [ -f "$rp" ]; then
	cp "$rp" "$VERIF/corpus/$PROP-seeded-${NAME#$PROP-}.json"
fi
rm -f "$VERIF"/replays/*.json
echo "filed under seeded/$NAME (caught=$([ $rc -eq 1 ] && echo yes || echo NO))"
