#!/bin/bash
# Files a property-PRESERVING change (refactor / other allowed behaviour) written by a sub-agent
# under benign/<name>/ and runs every check against it: all must stay silent.
#   confirm_benign.sh <agent-worktree> <property> <name>
set -u
WT="$1"; PROP="$2"; NAME="$3"
VERIF="$(cd "$(dirname "$0")" && pwd)"
OUT="$WT/OUT"
[ -f "$OUT/patch.diff" ] || { echo "missing $OUT/patch.diff"; exit 2; }
S=/tmp/ben-$NAME
git -C /repo worktree add --detach "$S" HEAD -q || exit 2
trap 'git -C /repo worktree remove --force "$S" >/dev/null 2>&1' EXIT
(cd "$S" && git apply "$OUT/patch.diff") || { echo "patch does not apply"; exit 2; }
(cd "$S" && cargo test --workspace --no-fail-fast --offline >/tmp/ben-$NAME.suite.log 2>&1); suite=$?
echo "existing suite with patch: exit $suite (want 0)"
mkdir -p "$VERIF/benign/$NAME"
cp "$OUT/patch.diff" "$VERIF/benign/$NAME/patch.diff"
[ -f "$OUT/notes.md" ] && cp "$OUT/notes.md" "$VERIF/benign/$NAME/notes.md"
ls "$OUT"/benign_*.rs >/dev/null 2>&1 && cp "$OUT"/benign_*.rs "$VERIF/benign/$NAME/"
results=""
alarms=0
for p in C04 C10 C11 C12 C20; do
	out=$(IREF_REPO="$S" "$VERIF/check" "$p" quick 2>&1); rc=$?
	results="$results $p=$rc"
	if [ $rc -ne 0 ]; then
		alarms=$((alarms+1))
		echo "---- $p exit $rc"
		echo "$out" | tail -12
	fi
done
echo "checks on the patched tree:$results"
python3 - "$VERIF/benign/$NAME/meta.json" "$PROP" "$NAME" "$suite" "$results" <<'EOF'
import json,sys
path,prop,name,suite,results=sys.argv[1:6]
json.dump({"written_for": prop, "name": name,
 "origin": "fresh sub-agent asked for a property-PRESERVING change (refactor or other allowed behaviour), given only the property text and a scratch worktree",
 "existing_suite_exit": int(suite),
 "checks_quick_exit": dict(x.split("=") for x in results.split()),
}, open(path,"w"), indent=1)
EOF
rm -f "$VERIF"/replays/*.json
echo "filed under benign/$NAME (alarms=$alarms)"
